#!/usr/bin/env python3
"""vcheck.py <Cnn> [--tier quick|thorough] | --replay <file>

Solver-based checking of /repo/xdis (see DESIGN.md).  Re-executes itself inside the overlay
venv (/verif/.venv, built by setup.sh) so CrossHair + z3 and the repository's own modules
are importable.  The obligations are regenerated from /repo's current working tree on every
run; nothing is cached between runs.
"""
import os
import sys

HERE = os.path.dirname(os.path.abspath(__file__))
VENV_PY = os.path.join(HERE, ".venv", "bin", "python")

HARNESS_ERROR = 3


def _ensure_env():
    if os.path.realpath(sys.prefix) == os.path.realpath(os.path.join(HERE, ".venv")):
        return   # already running inside the overlay venv (NB: its python is a symlink to /venv's, so compare prefixes)
    import subprocess
    r = subprocess.run(["/bin/sh", os.path.join(HERE, "setup.sh")], stdout=subprocess.DEVNULL)
    if r.returncode != 0:
        print("setup.sh failed", file=sys.stderr)
        sys.exit(HARNESS_ERROR)
    env = dict(os.environ, VCHECK_IN_VENV="1", PYTHONDONTWRITEBYTECODE="1", XDIS_VERIF="1")
    os.execve(VENV_PY, [VENV_PY, os.path.abspath(__file__)] + sys.argv[1:], env)


_ensure_env()
sys.path.insert(0, HERE)
# The tree under check is /repo.  XDIS_VERIF_REPO (used only by tools/run_seeds.sh to try a seeded change in a scratch
# worktree without touching /repo) points the same machinery at another checkout; XDIS_VERIF_OUT then receives the
# evidence and replay files so that /verif/evidence always describes /repo.
REPO = os.environ.get("XDIS_VERIF_REPO", "/repo")
OUT = os.environ.get("XDIS_VERIF_OUT", HERE)
if REPO != "/repo" or "/repo" not in sys.path:
    sys.path.insert(1, REPO)
sys.dont_write_bytecode = True

import argparse  # noqa: E402
import warnings  # noqa: E402
warnings.filterwarnings("ignore", category=DeprecationWarning, message=".*fork.*")
import hashlib  # noqa: E402
import importlib  # noqa: E402
import json  # noqa: E402
import random  # noqa: E402
import time  # noqa: E402

from engine import runner  # noqa: E402

PROPS = ["C%02d" % i for i in range(1, 21)]


def _jsonable(v):
    if isinstance(v, (bytes, bytearray)):
        return {"__bytes__": bytes(v).hex()}
    if isinstance(v, dict):
        return {str(k): _jsonable(x) for k, x in v.items()}
    if isinstance(v, (list, tuple)):
        return [_jsonable(x) for x in v]
    if isinstance(v, (int, str, bool, float)) or v is None:
        return v
    return repr(v)


def _unjson(v):
    if isinstance(v, dict):
        if "__bytes__" in v:
            return bytes.fromhex(v["__bytes__"])
        return {k: _unjson(x) for k, x in v.items()}
    if isinstance(v, list):
        return [_unjson(x) for x in v]
    return v


def load_known():
    p = os.path.join(HERE, "known_findings.json")
    if not os.path.exists(p):
        return {"findings": [], "fixed": []}
    with open(p) as f:
        return json.load(f)


def default_replay(ob, cex):
    """re-run the obligation body on the concrete input: plain interpreter, no CrossHair,
    real struct module, no stubs."""
    try:
        if ob.pre is not None and not ob.pre(**cex):
            return None
        ob.body(**cex)
    except Exception as e:
        return "%s: %s" % (type(e).__name__, str(e)[:400])
    return None


def do_replay(ob, cex, body_only=False):
    from engine import chplug
    chplug.uninstall_struct_model()
    chplug.OPAQUE_REPR[0] = False
    devnull = open(os.devnull, "w")
    saved = sys.stdout, sys.stderr
    sys.stdout = sys.stderr = devnull
    try:
        if ob.replay is not None and not body_only:
            return ob.replay(**cex)
        return default_replay(ob, cex)
    finally:
        sys.stdout, sys.stderr = saved
        devnull.close()


def isolated_replay(ob, seq, body_only=False):
    """run do_replay for each input of `seq`, in order, in a forked child of this process (which never replays anything
    itself, so no replay sees state left behind by another); returns the result for the last input.  A replay that raises
    is re-raised here as RuntimeError."""
    import pickle
    r_fd, w_fd = os.pipe()
    pid = os.fork()
    if pid == 0:
        os.close(r_fd)
        out = ("ok", None)
        try:
            for x in seq[:-1]:
                try:
                    do_replay(ob, x, body_only)
                except Exception:
                    pass
            d = do_replay(ob, seq[-1], body_only)
            out = ("ok", d if (d is None or isinstance(d, str)) else str(d))
        except Exception as e:
            out = ("exc", "%s: %s" % (type(e).__name__, str(e)[:600]))
        except BaseException as e:
            out = ("exc", "%s" % type(e).__name__)
        try:
            with os.fdopen(w_fd, "wb") as f:
                pickle.dump(out, f)
        finally:
            os._exit(0)
    os.close(w_fd)
    with os.fdopen(r_fd, "rb") as f:
        data = f.read()
    os.waitpid(pid, 0)
    if not data:
        raise RuntimeError("replay process died")
    kind, val = pickle.loads(data)
    if kind == "exc":
        raise RuntimeError(val)
    return val


def replay_with_history(ob, cex, max_primers=16):
    """A counterexample found during symbolic execution that does not reproduce in isolation may depend on what the same
    process did before (state kept between calls: the paths of one obligation run in one process).  Try one earlier call
    of the same operation (the counterexample with one parameter moved to an end of its range, or the counterexample
    itself) followed by the counterexample, each sequence in its own forked child.  Returns (primer, description) for the
    first sequence that shows the violation on the real code, else None."""
    primers = []
    for name, rng in (ob.params or []):
        if not (isinstance(rng, tuple) and len(rng) == 2 and name in cex):
            continue
        for v in rng:
            if v != cex[name]:
                pr = dict(cex)
                pr[name] = v
                if pr not in primers:
                    primers.append(pr)
    primers.append(dict(cex))
    for pr in primers[:max_primers]:
        try:
            d = isolated_replay(ob, [pr, cex])
        except RuntimeError:
            d = None
        if d:
            return pr, d
    return None


def history_probe(ob, seed=0, max_seqs=80, concrete_failures=False):
    """CrossHair reported NotDeterministic for this obligation: re-executing the same path took different branches, i.e.
    something kept state between executions.  Look for a concrete two-call sequence on the real code that shows it: inputs
    a, b (b = a with one parameter changed) such that b alone satisfies the obligation and b after a does not."""
    if not ob.params or ob.body is None:
        return None
    rnd = random.Random(seed)
    names = [n for n, rng in ob.params if isinstance(rng, tuple) and len(rng) == 2]
    ranges = dict((n, rng) for n, rng in ob.params if isinstance(rng, tuple) and len(rng) == 2)
    if len(names) != len(ob.params):
        return None

    def pick(n):
        lo, hi = ranges[n]
        return rnd.choice([lo, hi, min(hi, lo + 1), rnd.randint(lo, hi)])

    def ok(x):
        try:
            return ob.pre is None or bool(ob.pre(**x))
        except Exception:
            return False
    bases = []
    for _ in range(400):
        x = dict((n, pick(n)) for n in names)
        if ok(x) and x not in bases:
            bases.append(x)
        if len(bases) >= 12:
            break
    # The obligation's own assertion (the body, run concretely) decides; the replay function - which may compare with a real
    # interpreter beyond the obligation's domain - must agree before anything is reported.
    def fails(seq):
        try:
            d = isolated_replay(ob, seq, body_only=True)
            if not d:
                return None
            if ob.replay is None:
                return d
            return isolated_replay(ob, seq) or None
        except RuntimeError:
            return None

    def passes(x):
        try:
            return not isolated_replay(ob, [x], body_only=True) and (ob.replay is None or not isolated_replay(ob, [x]))
        except RuntimeError:
            return False
    tried = 0
    for a in bases[:3]:
        # a concrete input that satisfies the precondition and fails the assertion on its own: the real code disagrees with
        # what the symbolic run saw (CrossHair e.g. bypasses functools.lru_cache while tracing); then the same call twice
        # (a result object that is cached and later mutated shows there)
        tried += 1
        d0 = fails([a])
        if d0:
            if concrete_failures:
                return None, a, d0
            continue
        if passes(a):
            d = fails([a, a])
            if d:
                return a, a, d
    for a in bases:
        for n in names:
            for v in (ranges[n][0], ranges[n][1], pick(n)):
                if v == a[n]:
                    continue
                b = dict(a)
                b[n] = v
                if not ok(b):
                    continue
                tried += 1
                if tried > max_seqs:
                    return None
                if not passes(b):
                    continue
                d = fails([a, b])
                if d:
                    return a, b, d
    return None


def main():
    ap = argparse.ArgumentParser()
    ap.add_argument("prop", nargs="?")
    ap.add_argument("--tier", default=os.environ.get("VERIF_TIER", "quick"), choices=["quick", "thorough"])
    ap.add_argument("--replay")
    ap.add_argument("--jobs", type=int, default=int(os.environ.get("VERIF_JOBS", "0")) or None)
    ap.add_argument("--only", help="substring filter on obligation ids (debugging)")
    ap.add_argument("--list", action="store_true")
    ap.add_argument("-v", action="store_true")
    args = ap.parse_args()
    seed = int(os.environ.get("VERIF_SEED", "0") or 0)

    if args.replay:
        with open(args.replay) as f:
            rec = json.load(f)
        prop = rec["property"]
        mod = importlib.import_module("props.%s" % prop.lower())
        obs = mod.generate(rec.get("tier", "thorough"), seed)
        ob = next((o for o in obs if o.id == rec["obligation"]), None)
        if ob is None:
            obs = mod.generate("quick", seed)
            ob = next((o for o in obs if o.id == rec["obligation"]), None)
        if ob is None:
            print("obligation %s no longer generated" % rec["obligation"])
            return HARNESS_ERROR
        for pr in rec.get("history", []):
            try:
                do_replay(ob, _unjson(pr))
            except Exception:
                pass
        d = do_replay(ob, _unjson(rec["input"]))
        if d:
            print("REPRODUCED property=%s obligation=%s: %s" % (prop, ob.id, d))
            return 1
        print("not reproduced")
        return 0

    prop = args.prop
    if prop not in PROPS:
        ap.error("property id C01..C20 required")
    t0 = time.time()
    mod = importlib.import_module("props.%s" % prop.lower())
    obs = mod.generate(args.tier, seed)
    obs.append(_lemma_ob(prop))
    obs.append(_history_ob(prop, obs[:-1], seed))
    if args.only:
        obs = [o for o in obs if args.only in o.id]
    ids = [o.id for o in obs]
    assert len(set(ids)) == len(ids), "duplicate obligation ids"
    if args.list:
        for o in obs:
            print(o.id, o.timeout, o.skeleton)
        print(len(obs), "obligations")
        return 0
    order = list(range(len(obs)))
    random.Random(seed).shuffle(order)
    order.sort(key=lambda i: -obs[i].timeout)

    def progress(r, done, n):
        if args.v or r["verdict"] != runner.CONFIRMED:
            print("[%d/%d] %s %s %.1fs %s" % (done, n, r["id"], r["verdict"], r["wall_s"],
                                             (r["detail"] or "")[:400] if r["verdict"] != runner.CONFIRMED else ""),
                  flush=True)

    results = runner.run_obligations(obs, jobs=args.jobs, progress=progress, order=order)

    known = load_known()
    known_regions = {(k["property"], k["region"]): k for k in known.get("findings", [])}
    violations = []
    known_hits = []
    harness_errors = []
    replayed = 0
    nd_probes = 0
    nd_desc = None
    for ob, r in zip(obs, results):
        history = []
        if r["verdict"] in (runner.ERROR, runner.REFUTED) and r.get("cex") is None and "NotDeterministic" in (r["detail"] or ""):
            if nd_probes < 6:       # (a state leak shows in many obligations at once: a few concrete witnesses are enough)
                nd_probes += 1
                h = history_probe(ob, seed)
                if h is not None:
                    r["verdict"] = runner.REFUTED
                    r["cex"] = h[1]
                    history = [h[0]]
                    r["detail"] = "NotDeterministic under symbolic execution; concrete two-call witness found"
                    nd_desc = "history-dependent: after the same operation on %r, %s (alone, this input gives the right result)" % (h[0], h[2])
        if r["verdict"] == runner.ERROR:
            harness_errors.append("%s: %s" % (ob.id, r["detail"]))
            continue
        if r["verdict"] != runner.REFUTED:
            continue
        cex = r.get("cex")
        if cex is None:
            harness_errors.append("%s: refuted without a realised counterexample: %s" % (ob.id, r["detail"]))
            continue
        try:
            desc = nd_desc if history else isolated_replay(ob, [cex])
        except Exception as e:
            harness_errors.append("%s: replay of %r failed: %s: %s" % (ob.id, cex, type(e).__name__, str(e)[:600]))
            continue
        replayed += 1
        if not desc:
            h = replay_with_history(ob, cex)
            if h is not None:
                history = [h[0]]
                desc = "history-dependent: after the same operation on %r, %s (alone, this input gives the right result)" % (h[0], h[1])
        r["replay"] = desc
        if not desc:
            harness_errors.append("%s: counterexample %r did not reproduce on the real code (encoding/stub error): %s"
                                  % (ob.id, cex, r["detail"]))
            continue
        key = (prop, ob.region)
        if ob.region is not None and key in known_regions:
            known_hits.append((ob, cex, desc))
            r["known_finding"] = ob.region
            continue
        rd = os.path.join(OUT, "replays", prop)
        os.makedirs(rd, exist_ok=True)
        blob = json.dumps({"property": prop, "obligation": ob.id, "tier": args.tier,
                           "input": _jsonable(cex), "history": [_jsonable(h) for h in history], "observed": desc,
                           "skeleton": ob.skeleton}, indent=1, sort_keys=True)
        path = os.path.join(rd, hashlib.sha1(blob.encode()).hexdigest()[:12] + ".json")
        with open(path, "w") as f:
            f.write(blob)
        violations.append((ob, cex, desc, path))

    wall = time.time() - t0
    write_evidence(prop, args.tier, seed, mod, obs, results, violations, known_hits, harness_errors, replayed, wall)

    seen = set()
    for ob, cex, desc in known_hits:
        if ob.region in seen:
            continue
        seen.add(ob.region)
        print("KNOWN-FINDING: property=%s %s [%s] e.g. %s -> %s" % (
            prop, known_regions[(prop, ob.region)]["description"], ob.region, _short(cex), desc[:160]))
    nconf = sum(1 for r in results if r["verdict"] == runner.CONFIRMED)
    ninc = sum(1 for r in results if r["verdict"] == runner.INCONCLUSIVE)
    print("%s tier=%s obligations=%d confirmed=%d refuted=%d inconclusive=%d errors=%d wall=%.1fs" % (
        prop, args.tier, len(obs), nconf, len(violations) + len(known_hits), ninc, len(harness_errors), wall))
    for ob, cex, desc, path in violations:
        print("  violated %s input=%s : %s" % (ob.id, _short(cex), desc[:300]))
    for ob, cex, desc, path in violations:
        print("VIOLATION property=%s replay=%s" % (prop, path))
    if violations:
        return 1
    if harness_errors:
        for h in harness_errors:
            print("HARNESS-ERROR %s" % h[:1500], file=sys.stderr)
        return HARNESS_ERROR
    return 0


def _lemma_ob(prop):
    """the rewrite rules the engine relies on are themselves discharged by the solver on every run"""
    def q():
        from engine import lemmas
        n, nq, st, failures = lemmas.prove_all()
        if failures:
            raise RuntimeError("engine lemma failed: %s" % failures[:3])
        return "confirmed", "%d lemmas" % n, None, nq, st
    return runner.Ob(id="%s.engine-lemmas" % prop, prop=prop, params=[], body=None, direct=q,
                     funcs=["engine/chplug.py rewrite rules (bit operations, branch-free sign extension)"],
                     skeleton="QF_BV lemmas for the bit-operation rewrite rules, widths 8-64", bound="84 lemmas",
                     timeout=120, oracle="z3 (cvc5 cross-check on a sample)")


def _history_ob(prop, obs, seed, n_obs=40):
    """state kept between calls (a memo cache keyed too coarsely, a table updated in place) makes a function of the input
    depend on the history of the process.  The symbolic obligations usually notice (paths of one obligation share a
    process), but only by luck of path order; this sweep makes it systematic on the real code: for a seeded sample of
    obligations, inputs a and b (b = a with one parameter changed), b alone must pass and b after a must pass too."""
    known_regions = set(k["region"] for k in load_known().get("findings", []) if k["property"] == prop)
    cands = [o for o in obs if o.params and o.body is not None and o.direct is None and o.region not in known_regions]
    random.Random(seed + 17).shuffle(cands)
    cands = cands[:n_obs]

    def q():
        n = 0
        for o in cands:
            n += 1
            h = history_probe(o, seed, max_seqs=2, concrete_failures=True)
            if h is not None:
                return ("refuted", "%s: after %r, %r: %s" % (o.id, h[0], h[1], h[2]), {"obligation": o.id, "first": h[0], "then": h[1]}, 0, 0.0)
        return "confirmed", "%d obligations, two-call sequences" % n, None, 0, 0.0

    def replay(obligation, first, then):
        o = next((x for x in obs if x.id == obligation), None)
        if o is None:
            return None

        def fails(seq):
            d = isolated_replay(o, seq, body_only=True)
            if d and o.replay is not None:
                d = isolated_replay(o, seq)
            return d or None
        d0 = fails([then])
        if first is None:
            return ("concrete input %r fails obligation %s on the real code: %s" % (then, obligation, d0)) if d0 else None
        if d0:
            return None
        d = fails([first, then])
        return ("history-dependent (%s): after the same operation on %r, %s (alone, %r gives the right result)" % (obligation, first, d, then)) if d else None

    return runner.Ob(id="%s.history-sweep" % prop, prop=prop, params=[], body=None, direct=q, replay=replay,
                     funcs=["the functions of the sampled obligations, called twice in one process"],
                     skeleton="two-call sequences (a, then b = a with one parameter changed) for %d sampled obligations, real code, forked processes" % len(cands),
                     bound="%d obligations x <= 2 sequences (concrete)" % len(cands), timeout=600,
                     oracle="the obligation's own assertion: b alone passes => b after a passes")


def _short(cex):
    s = repr(cex)
    return s if len(s) < 300 else s[:300] + "..."


def write_evidence(prop, tier, seed, mod, obs, results, violations, known_hits, harness_errors, replayed, wall):
    nconf = [r for r in results if r["verdict"] == runner.CONFIRMED]
    ninc = [r for r in results if r["verdict"] == runner.INCONCLUSIVE]
    nref = [r for r in results if r["verdict"] == runner.REFUTED]
    paths = sum(r.get("paths", 0) for r in results)
    queries = sum(r.get("queries", 0) for r in results)
    solver_s = sum(r.get("solver_s", 0.0) for r in results)
    funcs = sorted({f for o in obs for f in o.funcs})
    samples = []
    step = max(1, len(obs) // 6)
    for ob, r in list(zip(obs, results))[::step][:8]:
        d = ob.describe()
        d.update({"verdict": r["verdict"], "paths": r.get("paths"), "solver_queries": r.get("queries"),
                  "solver_s": r.get("solver_s"), "wall_s": r.get("wall_s"), "twin": r.get("twin")})
        samples.append(d)
    extra = getattr(mod, "evidence_extra", lambda: {})()
    cov = {
        "explanation": getattr(mod, "EXPLANATION", ""),
        "technique": "symbolic execution of the real xdis functions (CrossHair 0.0.110 + z3) per obligation; "
                     "verdict = solver verdict over all paths/values within the stated bound",
        "functions_encoded": funcs,
        "bounds": getattr(mod, "BOUNDS", {}).get(tier, ""),
        "outside_the_claim": getattr(mod, "OUTSIDE", []),
        "obligations": len(obs),
        "discharged": len(nconf),
        "confirmed": len(nconf),
        "refuted": len(nref),
        "refuted_known_findings": len(known_hits),
        "inconclusive": len(ninc),
        "inconclusive_ids": [r["id"] for r in ninc][:50],
        "harness_errors": harness_errors[:20],
        "evaluations": paths + extra.get("extra_evaluations", 0),
        "distinct_nontrivial": len(nconf) + len(nref),
        "rule": "one evaluation = one symbolic execution path through the real code (each path stands for all "
                "inputs satisfying its path condition; its postcondition is a z3 query); distinct_nontrivial = "
                "obligations (distinct skeleton x bound instances) that were decided (confirmed or refuted); "
                "inconclusive ones are not counted",
        "states": max(1, paths),
        "transitions": max(1, queries),
        "traces_validated_against_impl": replayed + extra.get("oracle_validations", 0),
        "solver_queries": queries,
        "solver_time_s": round(solver_s, 2),
        "reachability_twins_violated": sum(1 for r in results if r.get("twin") == "reached"),
        "counterexamples_replayed": replayed,
        "known_findings_seen": sorted({ob.region for ob, _, _ in known_hits}),
        "samples": samples,
        "exhaustive": False,
    }
    for k, v in extra.items():
        if k not in ("extra_evaluations", "oracle_validations"):
            cov[k] = v
    ev = {
        "property_id": prop, "tier": tier, "seed": seed,
        "level": getattr(mod, "LEVEL", "model_checking"),
        "coverage": cov,
        "assumptions": getattr(mod, "ASSUMPTIONS", []),
        "wall_s": round(wall, 2),
        "violations": len(violations),
    }
    os.makedirs(os.path.join(OUT, "evidence"), exist_ok=True)
    with open(os.path.join(OUT, "evidence", "%s.json" % prop), "w") as f:
        json.dump(ev, f, indent=1, sort_keys=True)
        f.write("\n")


if __name__ == "__main__":
    sys.exit(main())
