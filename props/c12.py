"""C12 - listings are total, faithful to the instruction stream, and clean."""
import io
import re
import sys

from engine import oracles
from engine.runner import Ob
from props.common import QUICK_TABLES, cache_entries, defined_ops, has_interp, install_iter_unpack_model, make_portable, mkbytes, tables_for, tshort
from props.c02 import _pick

LEVEL = "model_checking"
EXPLANATION = (
    "Bounded symbolic model checking of the real listing code: for each opcode table x opcode x stack context "
    "(0 or 2 preceding constant loads, which the stack-simulating extended formatter branches on) x output format, a "
    "portable code object with marker tables is disassembled by the real disasm.disco / Bytecode.dis / "
    "Instruction.disassemble / format modules with the operand symbolic over its valid range (validity = CPython's own dis "
    "source accepts the operand where an interpreter is installed). On every path: no exception; the classic/bytes listing "
    "parsed back line by line equals the instruction stream (each non-CACHE instruction once, in order, with offset, opcode "
    "name, operand, '>>' iff is_jump_target, line number iff starts_line); sys.stdout and sys.stderr captured during the call "
    "stay empty (the listing goes to the given stream only). repr/format of symbolic ints is left real here (text is the subject).")
BOUNDS = {"quick": "tables 2.7, 3.6, 3.9, 3.11, 3.12, 3.13; every defined opcode; formats classic (context 0) and extended-bytes "
                   "(context 6); operand 0..5 within validity (0..2 for variable-pop opcodes under the stack-simulating formats); windows of <= 5 instructions + cache slots; header/xasm via disco on "
                   "one window per table",
          "thorough": "20 tables (every version with an interpreter here, plus 1.0, 1.5, 1.6, 2.0, 2.2, 3.3, 3.5 and PyPy 2.7/3.8/3.9); formats classic, bytes, extended, extended-bytes; operand 0..9"}
OUTSIDE = ["line-number column of SET_LINENO-era (< 2.3) listings (taken from SET_LINENO operands, not from starts_line)",
           "whole real programs: totality is claimed over the bounded instruction windows only",
           "show_source (reads source files)", "the click CLI wrapper (pydisasm)", "operands CPython's own dis rejects"]
ASSUMPTIONS = ["CrossHair/z3 soundness", "R-src dis.py (operand validity)", "CrossHair's models of str formatting on realised values"]
FUNCS = ["xdis.disasm.disco", "xdis.disasm.disco_loop", "xdis.disasm.disco_loop_asm_format", "xdis.disasm.show_module_header",
         "xdis.bytecode.Bytecode.dis", "xdis.bytecode.Bytecode.disassemble_bytes", "xdis.instruction.Instruction.disassemble",
         "xdis.opcodes.format.basic.*", "xdis.opcodes.format.extended.*", "xdis.cross_dis.format_code_info",
         "xdis.cross_dis.format_exception_table", "xdis.wordcode.findlabels (stray output)"]

VARNAMES = ("a", "b", "c", "d", "e", "f")
NAMES = ("n0", "n1", "n2", "n3", "n4", "n5")
CONSTS = (10, "k", None, 3, 4, ("a",))   # the last one is what CALL_FUNCTION_KW-style opcodes expect on top
CELLS = ("b", "x")
FREES = ("fr",)

LINE_RE = re.compile(r"^\s*(?:(\d+):)?\s*(-->)?\s*(>>)?\s*(\d+) (?:\|([0-9a-f ]*)\| ?)?(\S+)\s*(.*)$")


def build_items(opc, op, ctx, argval_byte):
    word = opc.version_tuple >= (3, 6)
    load = _pick(opc, ["LOAD_CONST"])
    ret = _pick(opc, ["RETURN_VALUE", "RETURN_CONST", "STOP_CODE"])
    items = []
    for i in range(ctx):
        items += [load, i] if word else [load, i, 0]
        for _ in range(cache_entries(opc, load)):
            items += [0, 0]
    off = len(items)
    if op >= opc.HAVE_ARGUMENT:
        items += [op, argval_byte] if word else [op, argval_byte, 0]
    else:
        items += [op, 0] if word else [op]
    for _ in range(cache_entries(opc, op)):
        items += [0, 0]
    if op != ret:
        items += ([ret, 0] if word else ([ret, 0, 0] if ret >= opc.HAVE_ARGUMENT else [ret]))
    return items, off


LINES = [1, 0, 999, 1000, 70000]


def make_code(opc, items, tracing=True, firstline=1):
    vt = tuple(opc.version_tuple[:2])
    code_bytes = mkbytes(items) if tracing else bytes(items)
    kw = dict(co_code=code_bytes, co_consts=CONSTS, co_names=NAMES, co_varnames=VARNAMES, co_cellvars=CELLS, co_freevars=FREES,
              co_filename="w.py", co_name="w", co_firstlineno=firstline, co_nlocals=len(VARNAMES), co_stacksize=4)
    if vt >= (3, 11):
        kw["co_lnotab"] = bytes([0x80 | (0 << 3) | 0, 0x00])  # one short-form entry: line 1 for the first code unit
        kw["co_exceptiontable"] = b""
    elif vt >= (3, 10):
        kw["co_lnotab"] = bytes([len(items), 0])
    else:
        kw["co_lnotab"] = b"" if vt >= (3, 0) else ""
    if vt < (3, 0):
        kw["co_code"] = code_bytes
    return make_portable(vt, **kw)


def check_listing(text, stream, fmt, opc):
    """parse the classic/bytes listing back and compare with the instruction stream"""
    # the statement is about non-CACHE instructions; whether CACHE slots are shown is left to the format
    want = [i for i in stream if i.opname != "CACHE"]
    got = []
    for ln in text.split("\n"):
        if not ln.strip() or ln.startswith("#"):
            continue
        m = LINE_RE.match(ln)
        assert m is not None, "unparsable listing line %r" % (ln,)
        if m.group(6) == "CACHE":
            continue
        got.append((m, ln))
    assert len(got) == len(want), "listing has %d instruction lines, stream has %d: %r" % (len(got), len(want), text)
    for (m, ln), ins in zip(got, want):
        lineno, _cur, mark, off, _hx, opname, rest = m.groups()
        assert int(off) == ins.offset, "offset %s vs %d in %r" % (off, ins.offset, ln)
        assert opname == ins.opname, "opname %s vs %s in %r" % (opname, ins.opname, ln)
        assert (mark is not None) == bool(ins.is_jump_target), "'>>' mark vs is_jump_target=%r in %r" % (ins.is_jump_target, ln)
        if ins.starts_line is None:
            assert lineno is None, "line number shown but starts_line is None: %r" % (ln,)
        else:
            assert lineno is not None and int(lineno) == ins.starts_line, "line number %r vs starts_line %r in %r" % (lineno, ins.starts_line, ln)
        if fmt in ("classic", "bytes") and ins.arg is not None:
            assert (repr(ins.arg) in rest) or (ins.argrepr and ins.argrepr in rest), "operand %r/%r missing in %r" % (ins.arg, ins.argrepr, ln)


def make_ob(tname, opc, op, ctx, fmt, hi, tier, lines=False):
    vt = tuple(opc.version_tuple[:2])
    has_arg = op >= opc.HAVE_ARGUMENT
    use_src = has_interp(opc) and vt >= (3, 6)
    params = [("x", (0, hi if has_arg else 0))]
    if lines:
        params.append(("ln", (0, len(LINES) - 1)))
    localsplus = VARNAMES + tuple(c for c in CELLS if c not in VARNAMES) + FREES

    name = opc.opname[op]

    def run(x, tracing, ln=0):
        import xdis.bytecode as B
        firstline = LINES[ln]
        # operands the interpreter itself does not accept (valid bytecode never carries them)
        if name == "RAISE_VARARGS" and not (x <= (3 if vt < (3, 0) else 2)):
            return None
        if name == "BUILD_SLICE" and not (x == 2 or x == 3):
            return None
        # the context's top of stack is the 1-tuple ("a",): the operand of the opcodes that consume a key/keyword-name
        # tuple must be consistent with it, as in compiler output
        if ctx and name == "BUILD_CONST_KEY_MAP" and not (x == 1):
            return None
        if ctx and name in ("CALL_FUNCTION_KW", "CALL_KW") and not (x >= 1):
            return None
        if name == "SET_LINENO":
            # the listing of SET_LINENO-era code takes the line of the *next* instruction from SET_LINENO; in compiler
            # output the line table says the same, in this synthetic code object (empty line table) it cannot: not valid code
            # (real SET_LINENO code is covered by the corpus obligations)
            return None
        if use_src and op in getattr(opc, "hasconst", ()) and not (x < len(CONSTS)):
            return None   # (3.11's dis does not resolve KW_NAMES at all, so it does not reject a missing constant either)
        if not use_src:
            for cat, table in (("hasconst", CONSTS), ("hasname", NAMES), ("haslocal", VARNAMES), ("hasfree", CELLS + FREES),
                               ("hascompare", getattr(opc, "cmp_op", ()))):
                if op in getattr(opc, cat, ()) and not (x < len(table)):
                    return None   # no table entry: not a valid instruction (where CPython's dis is available it decides this)
        items, off = build_items(opc, op, ctx, x)
        if use_src:
            try:
                oracles.src_instructions(vt, mkbytes(items) if tracing else bytes(items), varnames=VARNAMES, names=NAMES,
                                         constants=CONSTS, cells=CELLS + FREES, localsplus=localsplus)
            except (IndexError, KeyError, ValueError, AssertionError, TypeError):
                return None   # CPython's own dis rejects this operand: outside the statement
        code = make_code(opc, items, tracing, firstline)
        cap_out, cap_err = io.StringIO(), io.StringIO()
        saved = sys.stdout, sys.stderr
        sys.stdout, sys.stderr = cap_out, cap_err
        try:
            bc = B.Bytecode(code, opc)
            text = bc.dis(asm_format=fmt)
            stream = list(B.Bytecode(code, opc))
        finally:
            sys.stdout, sys.stderr = saved
        return text, stream, cap_out.getvalue(), cap_err.getvalue()

    def judge(r):
        if r is None:
            return None
        text, stream, out, err = r
        if out or err:
            return "stray-output: something other than the listing was written to stdout/stderr: %r %r" % (out[:80], err[:80])
        try:
            check_listing(text, stream, fmt, opc)
        except AssertionError as e:
            return "unfaithful: %s" % e
        return None

    def body(x, ln=0):
        d = judge(run(x, True, ln))
        assert d is None, d

    def replay(x, ln=0):
        try:
            r = run(x, False, ln)
        except Exception as e:
            return "Bytecode.dis(%s) on table %s, opcode %s operand %d raises %s: %s" % (fmt, tname, opc.opname[op], x, type(e).__name__, str(e)[:150])
        d = judge(r)
        return None if d is None else "table %s opcode %s operand %d first line %d format %s: %s" % (tname, opc.opname[op], x, LINES[ln], fmt, d)

    return Ob(id="C12.%s.op%d.c%d.%s%s" % (tshort(tname), op, ctx, fmt, ".lines" if lines else ""), prop="C12", params=params, body=body, replay=replay,
              funcs=FUNCS, opaque_repr=False, region="%s.%s" % (tshort(tname), fmt),
              skeleton="table=%s opcode=%d(%s) context=%d loads format=%s" % (tname, op, opc.opname[op], ctx, fmt),
              bound="operand 0..%d within validity" % hi, timeout=60 if tier == "quick" else 200,
              oracle="listing parsed back vs real instruction stream; stdout/stderr capture")


def linetab_ob(tname, opc, fmt, tier):
    """line-number column vs the line table decoded by CPython's own dis source (not by xdis): NOPs with a two-entry line
    table whose bytes are symbolic choices among boundary values (the listing renders numbers as text: realised)"""
    from props.common import SymCode
    from refmodels import lines310 as M310
    vt = tuple(opc.version_tuple[:2])
    word = vt >= (3, 6)
    signed = vt >= (3, 6)
    nop = _pick(opc, ["NOP", "POP_TOP"])
    ninst = 6
    step = 2 if word else 1
    items = [nop, 0] * ninst if word else [nop] * ninst
    FL = [1, 300]
    INC = [0, 2 * step]
    DL = [0, 1, 127, 128, 129, 255] if word else [0, 1, 128, 255]    # (the 2.7 source model costs more per path)
    params = [("f", (0, 1)), ("a0", (0, 1)), ("l0", (0, len(DL) - 1)), ("a1", (0, 1)), ("l1", (0, len(DL) - 1))]

    def table(kw):
        i0, i1 = INC[kw["a0"]], INC[kw["a1"]]
        d0, d1 = DL[kw["l0"]], DL[kw["l1"]]
        if vt == (3, 10):
            rest = len(items) - i0 - i1
            return [i0, d0, i1, d1, rest, 0]
        return [i0, d0, i1, d1]

    def pre(**kw):
        t = table(kw)
        fl = FL[kw["f"]]
        if vt == (3, 10):
            for _s, _e, l in M310.ranges(t, fl):
                if l is not None and not (l >= 1):
                    return False
            return True
        line = fl
        for j in (1, 3):
            d = t[j]
            line = line + (d - 256 if (signed and d >= 128) else d)
            if not (line >= 1):
                return False
        return True

    def run(kw):
        import xdis.bytecode as B
        t = table(kw)
        fl = FL[kw["f"]]
        lnotab = bytes(t)
        code = make_portable(vt, co_code=bytes(items), co_firstlineno=fl, co_lnotab=lnotab if vt >= (3, 0) else lnotab,
                             co_filename="w.py", co_name="w", co_stacksize=1)
        if vt == (3, 10):
            ref = M310.linestarts(t, fl)
        else:
            rc = SymCode(co_lnotab=lnotab, co_firstlineno=fl, co_code=bytes(items))
            ref = list(oracles.load_dis(vt).findlinestarts(rc)) if (vt >= (3, 6) and has_interp(opc)) else list(oracles.load_dis27()["findlinestarts"](rc))
        saved = sys.stdout, sys.stderr
        sys.stdout, sys.stderr = io.StringIO(), io.StringIO()
        try:
            text = B.Bytecode(code, opc).dis(asm_format=fmt)
        finally:
            sys.stdout, sys.stderr = saved
        return text, ref, t, fl

    def judge(r):
        text, ref, t, fl = r
        shown = []
        seen = 0
        for ln in text.split("\n"):
            if not ln.strip() or ln.startswith("#"):
                continue
            m = LINE_RE.match(ln)
            if m is None:
                return "unparsable listing line %r" % (ln,)
            seen += 1
            if m.group(1) is not None:
                # xdis repeats the line number when a new table entry continues the same line (its dup_lines convention,
                # an extension over dis): a repeated number is not a disagreement about where lines start
                if not shown or shown[-1][1] != int(m.group(1)):
                    shown.append((int(m.group(4)), int(m.group(1))))
        if seen != ninst:
            return "%d instruction lines for %d instructions" % (seen, ninst)
        want = [(int(o), int(l)) for o, l in ref]
        if shown != want:
            return "line table %r, first line %d: the listing starts lines at %r, CPython's line table at %r" % (bytes(t), fl, shown, want)
        return None

    def body(**kw):
        d = judge(run(kw))
        assert d is None, "unfaithful: " + d

    def replay(**kw):
        try:
            return judge(run(kw))
        except Exception as e:
            return "Bytecode.dis(%s) raises %s: %s" % (fmt, type(e).__name__, str(e)[:150])

    return Ob(id="C12.%s.linetab.%s" % (tshort(tname), fmt), prop="C12", params=params, body=body, pre=pre, replay=replay, funcs=FUNCS,
              opaque_repr=False, region="%s.%s" % (tshort(tname), fmt),
              skeleton="table=%s: %d NOPs, two line-table entries (increments %r, line bytes %r), first line %r, format %s" % (tname, ninst, INC, DL, FL, fmt),
              bound="table bytes: symbolic choice among the listed boundary values", timeout=120 if tier == "quick" else 300,
              setup=install_iter_unpack_model if vt == (3, 10) else None,
              oracle="line starts from CPython's own dis source / lines310 model, not from xdis")


def marks_ob(tname, opc, fmt, tier):
    """a loop-shaped code object built instruction by instruction: the listing must show exactly these offsets, names and
    operands, and '>>' exactly at the jump targets CPython's own findlabels reports (arithmetic before 3.6) - nothing here is
    taken from xdis's instruction stream"""
    vt = tuple(opc.version_tuple[:2])
    word = vt >= (3, 6)
    om = opc.opmap
    nop = "NOP" if "NOP" in om else "POP_TOP"
    XS = [0, 1, 2, 3]
    params = [("x", (0, 3))]
    use_src = has_interp(opc) and vt >= (3, 6)

    def build(x):
        items, want = [], []

        def emit(name, arg):
            op = om[name]
            has_arg = op >= opc.HAVE_ARGUMENT
            want.append((len(items), name, arg if (has_arg or (word and vt >= (3, 13) and False)) else None))
            items.extend([op, arg] if word else ([op, arg, 0] if has_arg else [op]))
            for _ in range(cache_entries(opc, op)):
                items.extend([om["CACHE"], 0])
        emit("JUMP_FORWARD", x)
        for _ in range(4):
            emit(nop, 0)
        emit("FOR_ITER", 2)
        emit(nop, 0)
        for nm in ("POP_JUMP_IF_TRUE", "POP_JUMP_FORWARD_IF_TRUE", "JUMP_IF_TRUE"):
            if nm in om:
                emit(nm, 1)
                break
        emit(nop, 0)
        if "JUMP_BACKWARD" in om:
            emit("JUMP_BACKWARD", 3)
        else:
            emit("JUMP_ABSOLUTE", 2)
        emit("RETURN_VALUE", 0)
        return items, want

    def labels_of(items, want):
        if use_src:
            return sorted(set(oracles.load_dis(vt).findlabels(bytes(items))))
        out = set()
        for off, name, arg in want:
            op = om[name]
            if op in opc.hasjrel:
                out.add(off + 3 + arg)
            elif op in opc.hasjabs:
                out.add(arg)
        return sorted(out)

    def run(x):
        import xdis.bytecode as B
        items, want = build(XS[x])
        code = make_code(opc, items, False, 1)
        saved = sys.stdout, sys.stderr
        sys.stdout, sys.stderr = io.StringIO(), io.StringIO()
        try:
            text = B.Bytecode(code, opc).dis(asm_format=fmt)
        finally:
            sys.stdout, sys.stderr = saved
        return text, items, want

    def judge(r):
        text, items, want = r
        labels = labels_of(items, want)
        got = []
        for ln in text.split("\n"):
            if not ln.strip() or ln.startswith("#"):
                continue
            m = LINE_RE.match(ln)
            if m is None:
                return "unparsable listing line %r" % (ln,)
            if m.group(6) == "CACHE":
                continue
            got.append(m)
        if len(got) != len(want):
            return "listing has %d instruction lines, the code has %d instructions" % (len(got), len(want))
        for m, (off, name, arg) in zip(got, want):
            if int(m.group(4)) != off or m.group(6) != name:
                return "listing shows %s at %s, the code has %s at %d" % (m.group(6), m.group(4), name, off)
            if (m.group(3) is not None) != (off in labels):
                return "'>>' mark at offset %d is %s, CPython's findlabels gives targets %r" % (off, "present" if m.group(3) else "absent", labels)
            if arg is not None and om[name] >= opc.HAVE_ARGUMENT and fmt in ("classic", "bytes"):
                # every operand-taking instruction here is a jump: the listing shows the operand raw and/or resolved as
                # "(to T)"; a resolved target must be one of CPython's labels
                t = re.search(r"to (\d+)", m.group(7))
                raw = re.search(r"(^|[^0-9])%d([^0-9]|$)" % arg, m.group(7))
                if t is None and raw is None:
                    return "operand %d of %s at %d not shown in %r" % (arg, name, off, m.group(0))
                if t is not None and int(t.group(1)) not in labels:
                    return "%s at %d is listed as jumping to %s, CPython's findlabels gives targets %r" % (name, off, t.group(1), labels)
        return None

    def body(x):
        d = judge(run(x))
        assert d is None, "unfaithful: " + d

    def replay(x):
        try:
            return judge(run(x))
        except Exception as e:
            return "Bytecode.dis(%s) raises %s: %s" % (fmt, type(e).__name__, str(e)[:150])

    return Ob(id="C12.%s.marks.%s" % (tshort(tname), fmt), prop="C12", params=params, body=body, replay=replay, funcs=FUNCS,
              opaque_repr=False, region="%s.%s" % (tshort(tname), fmt),
              skeleton="table=%s: JUMP_FORWARD x; NOPs; FOR_ITER; conditional jump; backward jump; RETURN - offsets/names/operands by construction, jump marks from dis.findlabels; format %s" % (tname, fmt),
              bound="x in 0..3 (symbolic choice; the listing renders numbers as text)", timeout=90 if tier == "quick" else 200,
              oracle="instruction list by construction; labels from CPython's own findlabels source (arithmetic before 3.6)")


def jumpmark_ob(tname, opc, op, fmt, tier):
    """one jump opcode of the table between NOPs: '>>' marks exactly where CPython's own findlabels puts the target"""
    vt = tuple(opc.version_tuple[:2])
    word = vt >= (3, 6)
    om = opc.opmap
    nop = om["NOP"] if "NOP" in om else om["POP_TOP"]
    name = opc.opname[op]
    XS = [0, 1, 2, 3]
    use_src = has_interp(opc) and vt >= (3, 6)

    def build(x):
        items, want = [], []

        def emit(o, arg):
            has_arg = o >= opc.HAVE_ARGUMENT
            want.append((len(items), opc.opname[o], arg if has_arg else None))
            items.extend([o, arg] if word else ([o, arg, 0] if has_arg else [o]))
            for _ in range(cache_entries(opc, o)):
                items.extend([om["CACHE"], 0])
        for _ in range(6):
            emit(nop, 0)
        emit(op, x)
        for _ in range(5):
            emit(nop, 0)
        emit(om["RETURN_VALUE"], 0)
        return items, want

    def run(x):
        import xdis.bytecode as B
        items, want = build(XS[x])
        code = make_code(opc, items, False, 1)
        saved = sys.stdout, sys.stderr
        sys.stdout, sys.stderr = io.StringIO(), io.StringIO()
        try:
            text = B.Bytecode(code, opc).dis(asm_format=fmt)
        finally:
            sys.stdout, sys.stderr = saved
        return text, items, want

    def judge(r):
        text, items, want = r
        if use_src:
            labels = sorted(set(oracles.load_dis(vt).findlabels(bytes(items))))
        else:
            off = want[6][0]
            arg = want[6][2]
            labels = [off + 3 + arg] if op in opc.hasjrel else [arg]
        got = []
        for ln in text.split("\n"):
            if not ln.strip() or ln.startswith("#"):
                continue
            m = LINE_RE.match(ln)
            if m is None:
                return "unparsable listing line %r" % (ln,)
            if m.group(6) == "CACHE":
                continue
            got.append(m)
        if len(got) != len(want):
            return "listing has %d instruction lines, the code has %d instructions" % (len(got), len(want))
        for m, (off, nm, arg) in zip(got, want):
            if int(m.group(4)) != off or m.group(6) != nm:
                return "listing shows %s at %s, the code has %s at %d" % (m.group(6), m.group(4), nm, off)
            if (m.group(3) is not None) != (off in labels):
                return "%s %r: '>>' mark at offset %d is %s, CPython's findlabels gives targets %r" % (name, want[6][2], off, "present" if m.group(3) else "absent", labels)
        return None

    def body(x):
        d = judge(run(x))
        assert d is None, "unfaithful: " + d

    def replay(x):
        try:
            return judge(run(x))
        except Exception as e:
            return "Bytecode.dis(%s) raises %s: %s" % (fmt, type(e).__name__, str(e)[:150])

    return Ob(id="C12.%s.jumpmark.op%d.%s" % (tshort(tname), op, fmt), prop="C12", params=[("x", (0, 3))], body=body, replay=replay, funcs=FUNCS,
              opaque_repr=False, region="%s.%s" % (tshort(tname), fmt),
              skeleton="table=%s: 6 NOPs; %s x; 5 NOPs; RETURN - jump marks from dis.findlabels; format %s" % (tname, name, fmt),
              bound="x in 0..3 (symbolic choice)", timeout=60 if tier == "quick" else 200,
              oracle="labels from CPython's own findlabels source (arithmetic before 3.6)")


def ext_ob(tname, opc, k, fmt, tier):
    """operands that need EXTENDED_ARG prefixes: the operand printed in the listing must be the folded value of the
    code bytes (computed arithmetically here, independently of xdis's own instruction stream)"""
    vt = tuple(opc.version_tuple[:2])
    word = vt >= (3, 6)
    jf = _pick(opc, ["JUMP_FORWARD"])
    ext = opc.opmap["EXTENDED_ARG"]
    nb = (k + 1) if word else 2 * (k + 1)
    # rendering the operand as text realises it (one path per value): each operand byte is a symbolic choice among
    # four boundary values; the first byte is never 0 (the prefixes are really needed) and stays below 2^31
    CH = [0, 1, 254, 255]
    CH0 = [1, 2, 62, 63]
    params = [("b%d" % i, (0, 3 if (word or i == 0) else 1)) for i in range(nb)]
    if not word:
        CH = [1, 255, 0, 254]     # two choices per byte for the four bytes of the 16-bit forms

    def pre(**kw):
        return True

    def run(kw, tracing):
        import xdis.bytecode as B
        bs = [(CH0 if i == 0 else CH)[kw["b%d" % i]] for i in range(nb)]
        items = []
        if word:
            for j in range(k):
                items += [ext, bs[j]]
            items += [jf, bs[k]]
            arg = 0
            for b in bs:
                arg = arg * 256 + b
        else:
            for j in range(k):
                items += [ext, bs[2 * j], bs[2 * j + 1]]
            items += [jf, bs[2 * k], bs[2 * k + 1]]
            arg = 0
            for j in range(0, nb, 2):
                arg = arg * 65536 + bs[j] + 256 * bs[j + 1]
        code = make_code(opc, items, tracing)
        text = B.Bytecode(code, opc).dis(asm_format=fmt)
        return text, arg, len(items)

    def judge(text, arg, n):
        lines = [ln for ln in text.split("\n") if ln.strip() and "JUMP_FORWARD" in ln]
        if len(lines) != 1:
            return "JUMP_FORWARD appears %d times in %r" % (len(lines), text)
        m = LINE_RE.match(lines[0])
        rest = m.group(7)
        scale = 2 if vt >= (3, 10) else 1
        want_target = n + scale * arg
        if fmt == "classic":
            ok = (repr(arg) in rest.split()) or ("to %d" % want_target) in rest
        else:
            ok = ("to %d" % want_target) in rest or repr(arg) in rest.split()
        return None if ok else "operand: listing line %r, the code bytes fold to operand %d (target %d)" % (lines[0], arg, want_target)

    def body(**kw):
        text, arg, n = run(kw, True)
        d = judge(text, arg, n)
        assert d is None, d

    def replay(**kw):
        try:
            text, arg, n = run(kw, False)
        except Exception as e:
            return "Bytecode.dis(%s) raises %s: %s" % (fmt, type(e).__name__, str(e)[:120])
        return judge(text, arg, n)

    return Ob(id="C12.%s.ext%d.%s" % (tshort(tname), k, fmt), prop="C12", params=params, body=body, pre=pre, replay=replay, funcs=FUNCS,
              opaque_repr=False, region="%s.%s" % (tshort(tname), fmt),
              skeleton="table=%s [EXTENDED_ARG]*%d JUMP_FORWARD, format %s" % (tname, k, fmt), bound="each operand byte a symbolic choice among {0,1,254,255} (first byte {1,2,62,63})",
              timeout=90 if tier == "quick" else 300, oracle="operand folded arithmetically from the code bytes")


def disco_ob(tname, opc, fmt, tier):
    """whole-module entry point incl. header and nested code object queue"""
    vt = tuple(opc.version_tuple[:2])
    load = _pick(opc, ["LOAD_CONST"])
    params = [("x", (0, 3)), ("ts", (1, 3))]   # the header renders the timestamp through datetime (C code: realised)

    def run(x, ts, tracing):
        import xdis.disasm as D
        items, off = build_items(opc, load, 1, x)
        inner_items, _ = build_items(opc, load, 0, 0)
        inner = make_code(opc, inner_items, tracing)
        inner.co_name = "inner"
        code = make_code(opc, items, tracing)
        code.co_consts = (10, inner, None, 3, 4, 5)
        code.co_name = "<module>"
        out = io.StringIO()
        cap_out, cap_err = io.StringIO(), io.StringIO()
        saved = sys.stdout, sys.stderr
        sys.stdout, sys.stderr = cap_out, cap_err
        try:
            D.disco(vt, code, ts, out=out, is_pypy=False, magic_int=3413, source_size=7, asm_format=fmt)
        finally:
            sys.stdout, sys.stderr = saved
        return out.getvalue(), cap_out.getvalue(), cap_err.getvalue()

    def judge(r):
        text, o, e = r
        if o or e:
            return "stray-output: %r %r" % (o[:80], e[:80])
        if fmt != "header" and "LOAD_CONST" not in text:
            return "listing lacks the instructions: %r" % text[:200]
        if fmt not in ("xasm", "header") and text.count("inner") < 1:
            return "nested code object not listed"
        return None

    def body(x, ts):
        d = judge(run(x, ts, True))
        assert d is None, d

    def replay(x, ts):
        try:
            r = run(x, ts, False)
        except Exception as e:
            return "disco(%s) on table %s raises %s: %s" % (fmt, tname, type(e).__name__, str(e)[:150])
        d = judge(r)
        return None if d is None else "disco(%s) on table %s: %s" % (fmt, tname, d)

    return Ob(id="C12.%s.disco.%s" % (tshort(tname), fmt), prop="C12", params=params, body=body, replay=replay, funcs=FUNCS,
              opaque_repr=True, region="%s.disco.%s" % (tshort(tname), fmt),
              skeleton="disasm.disco on a module with one nested code object, table=%s format=%s" % (tname, fmt),
              bound="operand 0..3, timestamp 1..3", timeout=90, oracle="total + clean")


def corpus_files_ob(fmt, group="rest"):
    """the public entry point disassemble_file on every file of the repository's corpus (1.0-3.12, PyPy): total, clean,
    and for classic/bytes faithful to the instruction stream (concrete; auxiliary to the symbolic windows)"""
    import glob
    import os
    from collections import deque

    def problems():
        import xdis.load as LD
        from xdis.bytecode import Bytecode
        from xdis.codetype.base import iscode
        from xdis.disasm import disassemble_file, get_opcode
        bad = []
        n = 0
        for path in sorted(glob.glob("/repo/test/bytecode_*/*.pyc")):
            if "dropbox" in path:
                continue
            if ("bytecode_3.2pypy" in path) != (group == "3.2pypy"):
                continue
            out = io.StringIO()
            cap_out, cap_err = io.StringIO(), io.StringIO()
            saved = sys.stdout, sys.stderr
            sys.stdout, sys.stderr = cap_out, cap_err
            try:
                try:
                    r = disassemble_file(path, out, fmt)
                except ImportError:
                    continue      # files load_module itself refuses (interim magics etc.) are not 'valid bytecode files'
                except Exception as e:
                    bad.append("%s [%s]: raises %s: %s" % (os.path.relpath(path, "/repo/test"), fmt, type(e).__name__, str(e)[:100]))
                    continue
                finally:
                    sys.stdout, sys.stderr = saved
                n += 1
                if cap_out.getvalue() or cap_err.getvalue():
                    bad.append("%s [%s]: wrote to stdout/stderr: %r" % (os.path.relpath(path, "/repo/test"), fmt, (cap_out.getvalue() + cap_err.getvalue())[:80]))
                    continue
                if fmt in ("classic", "bytes"):
                    co, vt, is_pypy = r[1], r[2], r[5]
                    if not iscode(co) or tuple(vt[:2]) < (2, 3):
                        continue   # SET_LINENO-era listings take their line numbers from SET_LINENO operands: totality/cleanliness only
                    opc = get_opcode(vt, is_pypy)
                    stream = []
                    queue = deque([co])
                    while queue:
                        c = queue.popleft()
                        sys.stdout, sys.stderr = cap_out, cap_err
                        try:
                            ins = list(Bytecode(c, opc, dup_lines=True))
                        finally:
                            sys.stdout, sys.stderr = saved
                        # old bytecode sets line numbers with SET_LINENO: the listing shows that number on the next instruction
                        setl = None
                        for i in ins:
                            if setl is not None:
                                i = i._replace(starts_line=setl)
                                setl = None
                            if i.opname == "SET_LINENO":
                                setl = i.argval
                            stream.append(i)
                        for k in c.co_consts:
                            if iscode(k):
                                queue.append(k)
                    text = "\n".join(l for l in out.getvalue().split("\n")
                                     if not l.startswith("ExceptionTable") and not re.match(r"^\s+\d+ to \d+ -> \d+ \[\d+\]", l))
                    try:
                        check_listing(text, stream, fmt, opc)
                    except AssertionError as e:
                        bad.append("%s [%s]: %s" % (os.path.relpath(path, "/repo/test"), fmt, str(e)[:160]))
                    except Exception as e:
                        bad.append("%s [%s]: listing not parsable: %s" % (os.path.relpath(path, "/repo/test"), fmt, str(e)[:100]))
            finally:
                sys.stdout, sys.stderr = saved
        return bad, n

    def q():
        bad, n = problems()
        if bad:
            return "refuted", "%d of %d files" % (len(bad), n), {"first": bad[0][:70]}, 0, 0.0
        return "confirmed", "%d files" % n, None, 0, 0.0

    def replay(first):
        bad, n = problems()
        return ("%d corpus files, first: %s" % (len(bad), bad[0])) if bad else None

    return Ob(id="C12.corpus.%s.%s" % (fmt, group), prop="C12", params=[], body=None, direct=q, replay=replay, funcs=FUNCS + ["xdis.disasm.disassemble_file"],
              region="corpus.%s.%s" % (fmt, group), skeleton="disassemble_file(<every corpus file>, format=%s)" % fmt, bound="every loadable corpus file",
              timeout=900, oracle="total + clean (+ listing parsed back for classic/bytes); concrete")


C12_TABLES = ["opcode_27", "opcode_36", "opcode_39", "opcode_311", "opcode_312", "opcode_313"]


def generate(tier, seed):
    from props.common import opc_tables
    tabs = opc_tables()
    oracles.load_dis27()
    extra = [corpus_files_ob(f, g) for f in ("classic", "bytes", "extended", "extended-bytes", "xasm", "header") for g in ("rest", "3.2pypy")]
    # thorough: every table that has an interpreter in the sandbox plus one or two per older/variant family (all 77 tables take
    # about six hours; the first complete run of that size is what found the 1.5-2.0 line-number defect and three false alarms)
    THOROUGH = sorted(set(C12_TABLES) | set(QUICK_TABLES) | {"opcode_10", "opcode_16", "opcode_20", "opcode_22", "opcode_33", "opcode_37", "opcode_38",
                                                            "opcode_310", "opcode_39pypy"})
    names = C12_TABLES if tier == "quick" else [t for t in THOROUGH if t in tabs]
    obs = []
    for tname in names:
        opc = tabs[tname]
        vt = tuple(opc.version_tuple[:2])
        if has_interp(opc) and vt >= (3, 6):
            oracles.load_dis(vt)
        if "LOAD_CONST" not in opc.opmap:
            continue
        for op in defined_ops(opc):
            if opc.opname[op] == "EXTENDED_ARG":
                continue
            # the extended formatter simulates the operand stack: give it a stack deep enough for what the
            # instruction pops (6 constant loads; variable-pop instructions get operands <= 2), as valid code has
            if tier == "quick":
                combos = [(0, "classic"), (6, "extended-bytes")]
                hi = 5
            else:
                combos = [(0, "classic"), (0, "bytes"), (6, "extended"), (6, "extended-bytes")]
                hi = 9
            special = set(getattr(opc, "opcode_extended_fmt", {})) | set(getattr(opc, "opcode_arg_fmt", {}))
            for ctx, fmt in combos:
                if tier == "quick" and fmt.startswith("extended") and opc.opname[op] not in special \
                        and op not in opc.nullaryloadop and opc.opname[op] not in ("POP_TOP", "RETURN_VALUE", "JUMP_FORWARD"):
                    continue   # no opcode-specific formatter: same generic path as the representatives kept
                h = 2 if (fmt.startswith("extended") and opc.oppop[op] < 0) else hi
                obs.append(make_ob(tname, opc, op, ctx, fmt, h, tier))
        # line-number column: first line 0 (module-level code of 3.11+), 999/1000 (column width), 70000
        for nm in ("LOAD_CONST", "RETURN_VALUE", "RESUME", "NOP"):
            if nm in opc.opmap:
                for fmt in (("classic", "extended-bytes") if tier == "quick" else ("classic", "bytes", "extended", "extended-bytes")):
                    obs.append(make_ob(tname, opc, opc.opmap[nm], 6 if fmt.startswith("extended") else 0, fmt, 1, tier, lines=True))
        if "EXTENDED_ARG" in opc.opmap and "JUMP_FORWARD" in opc.opmap:
            for k in ((1, 2) if vt >= (3, 6) else (1,)):
                for fmt in (("classic",) if tier == "quick" else ("classic", "bytes", "extended")):
                    obs.append(ext_ob(tname, opc, k, fmt, tier))
        # own-oracle obligations (line column, jump marks): only where the oracle is CPython's own source for exactly this
        # table (an interpreter of that version in the sandbox, not a PyPy variant)
        own = has_interp(opc)
        if own and vt <= (3, 10):
            for fmt in (("classic",) if tier == "quick" else ("classic", "extended")):
                obs.append(linetab_ob(tname, opc, fmt, tier))
        if own and "RETURN_VALUE" in opc.opmap:
            jops = set(opc.hasjrel) | set(opc.hasjabs)
            if has_interp(opc):
                d = oracles.opcode_dump(vt)["opcode"]
                jops |= set(d["hasjrel"]) | set(d["hasjabs"])
            for op in sorted(jops):
                if op < 256 and op < len(opc.opname) and not opc.opname[op].startswith("<") and opc.opname[op] in opc.opmap:
                    for fmt in (("classic",) if tier == "quick" else ("classic", "bytes")):
                        obs.append(jumpmark_ob(tname, opc, op, fmt, tier))
        if own and "JUMP_FORWARD" in opc.opmap and "FOR_ITER" in opc.opmap:
            for fmt in (("classic", "extended-bytes") if tier == "quick" else ("classic", "bytes", "extended", "extended-bytes")):
                obs.append(marks_ob(tname, opc, fmt, tier))
        for fmt in ("classic", "xasm", "extended"):
            obs.append(disco_ob(tname, opc, fmt, tier))
    # 3.10 line tables are read with struct.iter_unpack: symbolic first lines need the model (harness, §2.4)
    for ob in obs:
        if ob.id.startswith(("C12.310.", "C12.310pypy.")) and getattr(ob, "setup", None) is None and ob.direct is None:
            ob.setup = install_iter_unpack_model
    if tier == "quick":
        for tname in ("opcode_38", "opcode_310"):
            oracles.load_dis(tuple(tabs[tname].version_tuple[:2]))
            obs.append(linetab_ob(tname, tabs[tname], "classic", tier))
    return obs + extra
