"""C07 - results do not depend on the host Python or on which loader path is taken."""
import glob
import hashlib
import io
import json
import marshal
import os
import sys

from engine import oracles
from engine.runner import Ob
from props import c01, c10, common

LEVEL = "model_checking"
EXPLANATION = (
    "(a) Host version as a symbolic variable: the PYTHON_VERSION_TRIPLE that xdis.unmarshal, xdis.load and xdis.marsh consult at "
    "call time is rebound to (3, minor, micro) with minor in 8..13 and micro symbolic, and representative C01/C10 obligations are "
    "re-decided: the decoded code object equals the reference for every payload value *and every host triple*, hence does not "
    "depend on it. (b) Loader paths on the same bytes (concrete, host 3.12): a corpus of programs exercising closures, inlined "
    "comprehensions with captured variables, class bodies, generators, async code, try/with/match, big ints, sets, non-ASCII "
    "text is compiled by the host; for each code object the native fast path (marshal.loads), xdis's portable unmarshaller on "
    "the same bytes and the native object passed directly must give the same fields, constants, instruction stream, labels "
    "and line starts. (c) Other hosts (replay-level confirmation, not a solver verdict): each installed interpreter 3.8-3.13 "
    "imports /repo and computes a digest of the decoded content and listing of every file of the repository's bytecode corpus "
    "(1.0-3.12, PyPy) plus the opcode tables; all hosts must produce the same digests.")
BOUNDS = {"quick": "(a) 24 obligations x hosts 3.8-3.13 symbolic; (b) 30 programs; (c) every corpus file x 6 hosts",
          "thorough": "(a) all quick C01/C10 obligations of the 3.x/2.7 format classes"}
OUTSIDE = ["listing text of files with set/frozenset constants (element order follows the host's string hashing)",
           "genuine behavioural differences of the host interpreters themselves are observed by replay (c) only: CrossHair runs on "
           "3.12 (wheels for 3.11/3.12 only)", "hosts below 3.8", "the banner line naming the host and object addresses in listings"]
ASSUMPTIONS = ["xdis reads the host version only through version_info.PYTHON_VERSION_TRIPLE/PYTHON3 (grep-checked list in DESIGN.md)",
               "CrossHair/z3 soundness"]
FUNCS = ["xdis.unmarshal.* (with symbolic host triple)", "xdis.load.load_module_from_file_object (fast-path switch)",
         "xdis.codetype.codeType2Portable", "xdis.bytecode.Bytecode", "xdis.cross_dis.findlinestarts", "xdis.disasm.disco",
         "xdis.opcodes.base (host-dependent construction)"]

PROGRAMS = [
    "x = 1\n", "def f(a, b=2, *c, **d):\n    return a + b\n",
    "def outer(p):\n    q = 1\n    def inner():\n        return p, q\n    return inner\n",
    "class Handlers:\n    table = [lambda: code for code in range(3)]\n",
    "class K:\n    def m(self):\n        return super().m()\n    z = {i: i for i in range(2)}\n",
    "vals = [v for v in range(3)]\nfns = [lambda: v for v in range(3)]\n",
    "def g():\n    yield 1\n    x = yield from g()\n",
    "async def c():\n    async with a as b:\n        async for i in b:\n            await i\n",
    "try:\n    x = 1\nexcept (A, B) as e:\n    raise\nfinally:\n    y = 2\n",
    "with open(f) as h, open(g) as k:\n    pass\n",
    "for i in x:\n    if i:\n        continue\n    else:\n        break\nelse:\n    z = 1\n",
    "while a:\n    a -= 1\n",
    "big = 123456789012345678901234567890\nneg = -9223372036854775808\nf = 1.5\nc = 2j\n",
    "s = {1, 2, 3}\nt = x in {4, 5}\nu = frozenset()\n",
    "t = 'h\\xe9llo \\u20ac \\U0001f600'\nb = b'\\x00\\xff'\n",
    "d = {None: 1, 2: None}\nl = [None, (), ((),)]\n",
    "match p:\n    case (1, y):\n        z = y\n    case {'k': v}:\n        z = v\n    case _:\n        z = 0\n",
    "f = f'{a!r:>{w}} {b}'\n", "lam = lambda *a, k=1, **kw: (a, k, kw)\n", "def t[T](x: T) -> T:\n    return x\n",
    "a, *b, c = seq\nx = y if z else w\nassert q, 'm'\n", "import os.path as p\nfrom sys import (argv, path)\n",
    "global G\nG = 1\ndef h():\n    global G\n    nonlocal_ = 2\n    del nonlocal_\n",
    "x = [i async for i in y] if 0 else None\n" if False else "x = (i for i in y)\n",
    "def deco(f):\n    return f\n@deco\nclass D:\n    @deco\n    def m(self): pass\n",
    "r = a[1:2, ::3]\na[0] = b.c.d\ndel a[0]\n", "x = a @ b // c ** d << e >> f & g | h ^ i\n",
    "def k(a, /, b, *, c):\n    return locals()\n", "e = ...\nn = not a is b\nm = a not in b\n",
    # constants shared between code objects (the compiler writes them once with FLAG_REF and refers back to them)
    "def a(code):\n    return code in {1, 2, 75}\ndef b(err):\n    if err.code in {1, 2, 75}:\n        return 'retry'\n    return err.code == 2 or 'again'\n",
    "def p():\n    return (1, 2.5, 'x', b'y', None), 2.5, 'x', 10**30\ndef q():\n    return (1, 2.5, 'x', b'y', None), b'y', 1, 10**30, -(10**30)\n",
    "def r(v):\n    return v in ('k', 'l', ('k', 'l')) or v in {'k', 'l'}\ndef s(v):\n    return v in {'k', 'l'}, ('k', 'l'), 'l'\n",
    "a = 1\n" + "\n" * 200 + "b = 2\n" + "\n" * 400 + "c = 3\n",          # line deltas that do not fit one signed byte
    "while a:\n" + "\n" * 300 + "    a -= 1\n" + "\n" * 140 + "z = a\n",    # ... forward and backward
    "def many():\n" + "".join("    v%d = %d\n" % (i, i) for i in range(300)) + "    return v299\n",
]


# ---- (a) symbolic host triple ------------------------------------------------------------------------------------------

def with_host(ob):
    inner_body = ob.body
    inner_setup = ob.setup

    def body(**kw):
        import xdis.load as LD
        import xdis.marsh as MS
        import xdis.unmarshal as U
        triple = (3, kw.pop("hminor"), kw.pop("hmicro"))
        saved = [(m, m.PYTHON_VERSION_TRIPLE) for m in (U, LD, MS)]
        for m in (U, LD, MS):
            m.PYTHON_VERSION_TRIPLE = triple
        try:
            inner_body(**kw)
        finally:
            for m, t in saved:
                m.PYTHON_VERSION_TRIPLE = t

    pre0 = ob.pre

    def pre(**kw):
        kw = dict(kw)
        kw.pop("hminor")
        kw.pop("hmicro")
        return True if pre0 is None else pre0(**kw)

    def replay(**kw):
        kw = dict(kw)
        h = (3, kw.pop("hminor"), kw.pop("hmicro"))
        d = ob.replay(**kw) if ob.replay else None
        return None if d is None else "with host triple %r: %s" % (h, d)

    return Ob(id=ob.id.replace("C10.", "C07.host.C10.").replace("C01.", "C07.host.C01."), prop="C07",
              params=ob.params + [("hminor", (8, 13)), ("hmicro", (0, 20))], body=body, pre=pre, replay=replay, funcs=FUNCS,
              region="host-triple", skeleton=ob.skeleton + " | host triple (3, 8..13, 0..20) symbolic", bound=ob.bound,
              timeout=ob.timeout * 2, setup=inner_setup, oracle=ob.oracle)


# ---- (b) loader paths ----------------------------------------------------------------------------------------------------

def _codes(co):
    out = [co]
    for k in co.co_consts:
        if hasattr(k, "co_code"):
            out += _codes(k)
    return out


def _fieldval(v):
    from xdis.codetype.base import CodeBase
    if hasattr(v, "co_code") or isinstance(v, CodeBase):
        return "<code %s>" % v.co_name
    if isinstance(v, (tuple, list)):
        return [type(v).__name__] + [_fieldval(x) for x in v]
    if isinstance(v, (set, frozenset)):
        return [type(v).__name__] + sorted(repr(_fieldval(x)) for x in v)
    if isinstance(v, float):
        return ["float", repr(v)]
    if isinstance(v, (int, str, bytes, complex, bool)) or v is None or v is Ellipsis:
        return [type(v).__name__, repr(v)]
    return repr(v)


FIELDS = ["co_argcount", "co_posonlyargcount", "co_kwonlyargcount", "co_nlocals", "co_stacksize", "co_flags", "co_code", "co_consts",
          "co_names", "co_varnames", "co_freevars", "co_cellvars", "co_filename", "co_name", "co_qualname", "co_firstlineno",
          "co_linetable", "co_exceptiontable"]


def describe(code, opc):
    """host-independent description of everything the statement lists, for one code object (native or portable)"""
    from xdis.bytecode import Bytecode
    from xdis.cross_dis import findlinestarts
    d = {f: _fieldval(getattr(code, f)) for f in FIELDS if hasattr(code, f)}
    d["instructions"] = [[i.offset, i.opname, i.arg, _fieldval(i.argval), bool(i.is_jump_target), i.starts_line]
                         for i in Bytecode(code, opc)]
    d["labels"] = sorted(opc.findlabels(code.co_code, opc))
    d["linestarts"] = [list(p) for p in findlinestarts(code)]
    return d


def loader_ob(idx, src):
    def diffs():
        import xdis.unmarshal as U
        import xdis.load as LD
        import xdis.magics as M
        from xdis.op_imports import get_opcode_module
        opc = get_opcode_module(sys.version_info)
        try:
            top = compile(src, "prog%d.py" % idx, "exec")
        except SyntaxError:
            return []
        data = marshal.dumps(top)
        hdr = M.int2magic(M.PYTHON_MAGIC_INT) + b"\0" * 12
        devnull = open(os.devnull, "w")
        saved = sys.stdout, sys.stderr
        sys.stdout = sys.stderr = devnull
        try:
            fast = LD.load_module_from_file_object(io.BytesIO(hdr + data), code_objects={})[3]
            portable = U.load_code(io.BytesIO(data), M.PYTHON_MAGIC_INT, False, {})
        finally:
            sys.stdout, sys.stderr = saved
            devnull.close()
        bad = []
        nat_codes, fast_codes, port_codes = _codes(top), _codes(fast), _codes(portable)
        if not (len(nat_codes) == len(fast_codes) == len(port_codes)):
            return ["number of code objects differs: native %d, fast path %d, portable %d" % (len(nat_codes), len(fast_codes), len(port_codes))]
        for n, f, p in zip(nat_codes, fast_codes, port_codes):
            dn, df, dp = describe(n, opc), describe(f, opc), describe(p, opc)
            for key in dn:
                if df.get(key) != dn[key]:
                    bad.append("%s.%s: fast path %r vs native argument %r" % (n.co_name, key, _s(df.get(key)), _s(dn[key])))
                if key in dp and dp[key] != dn[key]:
                    bad.append("%s.%s: portable unmarshaller %s vs native %s" % (n.co_name, key, _s(dp[key]), _s(dn[key])))
        return bad

    def q():
        bad = diffs()
        if bad:
            return "refuted", bad[0][:300], {"program": idx}, 0, 0.0
        return "confirmed", "", None, 0, 0.0

    def replay(program):
        bad = diffs()
        return ("program %r: %s" % (src[:60], bad[0][:400])) if bad else None

    return Ob(id="C07.paths.prog%02d" % idx, prop="C07", params=[], body=None, direct=q, replay=replay, funcs=FUNCS,
              region="paths", skeleton="native argument vs fast path vs portable unmarshaller on %r" % src[:50],
              bound="one program, every nested code object", timeout=120, oracle="the three loader paths must agree (concrete)")


def _s(v):
    s = repr(v)
    return s if len(s) < 150 else s[:150] + "..."


# ---- (c) other hosts -------------------------------------------------------------------------------------------------------

_HOST_SCRIPT = r'''
import sys, os, io, json, hashlib, glob
sys.path.insert(0, "@REPO@")
import xdis.load as LD
from xdis.disasm import get_opcode, disco
from xdis.bytecode import Bytecode
from xdis.cross_dis import findlinestarts
from xdis.codetype.base import iscode
files = json.loads(sys.stdin.read())
def val(v):
    if iscode(v): return "<code %s>" % v.co_name
    if isinstance(v, (tuple, list)): return [type(v).__name__] + [val(x) for x in v]
    if isinstance(v, (set, frozenset)): return [type(v).__name__] + sorted(repr(val(x)) for x in v)
    if isinstance(v, float): return ["float", repr(v)]
    if isinstance(v, str): return ["text", getattr(v, "value", None) and repr(v.value) or repr(v)]
    return [type(v).__name__ if not isinstance(v, int) else "int", repr(v).rstrip("L")]
def walk(co, opc, out):
    for f in ("co_argcount", "co_nlocals", "co_stacksize", "co_flags", "co_code", "co_names", "co_varnames", "co_freevars",
              "co_cellvars", "co_filename", "co_name", "co_firstlineno"):
        if hasattr(co, f): out.append([f, val(getattr(co, f))])
    out.append(["consts", [val(c) for c in co.co_consts]])
    out.append(["instrs", [[i.offset, i.opname, i.arg, val(i.argval), bool(i.is_jump_target), i.starts_line] for i in Bytecode(co, opc)]])
    out.append(["labels", sorted(opc.findlabels(co.co_code, opc))])
    try:
        out.append(["lines", [list(p) for p in findlinestarts(co)]])
    except Exception as e:
        out.append(["lines-exc", type(e).__name__])
    for c in co.co_consts:
        if iscode(c): walk(c, opc, out)
res = {}
devnull = open(os.devnull, "w")
for path in files:
    so, se = sys.stdout, sys.stderr
    sys.stdout = sys.stderr = devnull
    try:
        try:
            vt, ts, magic, co, pypy, size, sip = LD.load_module(path, {}, fast_load=False)
            out = [["hdr", [list(vt[:2]), ts, magic, pypy, size, sip]]]
            def has_set(c):
                return any(isinstance(k, (set, frozenset)) or (isinstance(k, tuple) and has_set_t(k)) or (iscode(k) and has_set(k))
                           for k in c.co_consts)
            def has_set_t(t):
                return any(isinstance(k, (set, frozenset)) or (isinstance(k, tuple) and has_set_t(k)) for k in t)
            if co is not None and iscode(co):
                opc = get_opcode(vt, pypy)
                walk(co, opc, out)
            # the text of a set constant follows the host's hash order (hash randomisation): content is compared above,
            # the listing text only for files without set constants
            if co is not None and iscode(co) and not has_set(co):
                buf = io.StringIO()
                disco(vt, co, ts, out=buf, is_pypy=pypy, magic_int=magic, source_size=size, sip_hash=sip, asm_format="classic")
                import re
                text = "\n".join(l for l in buf.getvalue().split("\n")
                                 if not l.startswith("# Version of xdis") and not l.startswith("# Disassembled from")
                                 and not l.startswith("# ["))   # banner (sys.version may span two lines)
                text = re.sub(r" at 0x[0-9a-fA-F]+", " at 0x?", text)   # object addresses
                # how a nested code object *constant* is spelled differs between native and portable objects
                # (known finding C07 listing-code-object-repr, decided by its own obligation): normalise here
                text = re.sub(r"<(?:Code\w+ )?code object (.+?) at 0x\?, file \"?([^\">]*)\"?(?:>, line (\d+)|, line (\d+)>)",
                              lambda m: "<code object %s file %s line %s>" % (m.group(1), m.group(2), m.group(3) or m.group(4)), text)
                out.append(["listing", hashlib.sha1(text.encode("utf-8", "backslashreplace")).hexdigest()])
        except ImportError as e:
            out = [["ImportError"]]
        except Exception as e:
            out = [["exception", type(e).__name__]]
    finally:
        sys.stdout, sys.stderr = so, se
    res[os.path.basename(os.path.dirname(path)) + "/" + os.path.basename(path)] = hashlib.sha1(json.dumps(out, sort_keys=True, default=repr).encode()).hexdigest()
so = sys.stdout
import xdis.op_imports as OI
tabs = {}
for k, m in OI.op_imports.items():
    tabs[str(k)] = hashlib.sha1(repr((sorted(m.opmap.items()), list(m.opname), m.HAVE_ARGUMENT, sorted(m.hasjrel), sorted(m.hasjabs),
                                      sorted(m.hasconst), sorted(m.hasname), sorted(m.haslocal), sorted(m.hasfree),
                                      sorted(getattr(m, "LOOP_OPS", [])), list(m.oppop), list(m.oppush))).encode()).hexdigest()
res["<tables>"] = hashlib.sha1(json.dumps(tabs, sort_keys=True).encode()).hexdigest()
so.write(json.dumps(res))
'''

_DIGESTS = {}


_COMPILE = r'''
import sys, json, marshal, os
req = json.loads(sys.stdin.read())
try:
    import importlib.util
    magic = importlib.util.MAGIC_NUMBER
except ImportError:
    import imp
    magic = imp.get_magic()
V = sys.version_info[:2]
hdr = magic + (b"\0" * 12 if V >= (3, 7) else b"\0" * 8 if V >= (3, 3) else b"\0" * 4)
made = []
for i, src in enumerate(req["programs"]):
    try:
        co = compile(src, "prog%02d.py" % i, "exec")
    except SyntaxError:
        continue
    path = os.path.join(req["dir"], "p%02d.pyc" % i)
    f = open(path, "wb"); f.write(hdr + marshal.dumps(co)); f.close()
    made.append(path)
sys.stdout.write(json.dumps(made))
'''

_PROGFILES = []


def program_files():
    """PROGRAMS compiled by every real interpreter of the sandbox (scratch directory, removed at exit)"""
    if not _PROGFILES:
        import atexit
        import shutil
        import tempfile
        root = tempfile.mkdtemp(prefix="c07prog")
        atexit.register(shutil.rmtree, root, True)
        for ver in sorted(oracles.INTERPS):
            d = os.path.join(root, "prog_%d.%d" % ver)
            os.mkdir(d)
            _PROGFILES.extend(oracles.run_in(ver, _COMPILE.replace("-S", ""), {"programs": PROGRAMS, "dir": d}, timeout=300))
    return list(_PROGFILES)


def host_digests(host):
    if host not in _DIGESTS:
        files = sorted(glob.glob("/repo/test/bytecode_*/*.pyc")) + program_files()
        _DIGESTS[host] = oracles.run_in(host, _HOST_SCRIPT.replace("@REPO@", common.REPO), files, timeout=900)
    return _DIGESTS[host]


def hosts_ob(host, ref_host=(3, 12)):
    def q():
        a, b = host_digests(ref_host), host_digests(host)
        bad = sorted(k for k in a if a[k] != b.get(k))
        if bad:
            return "refuted", "%d of %d corpus entries decode differently under %d.%d" % (len(bad), len(a), host[0], host[1]), {"entry": bad[0]}, 0, 0.0
        return "confirmed", "%d corpus entries" % len(a), None, 0, 0.0

    def replay(entry):
        a, b = host_digests(ref_host), host_digests(host)
        if a.get(entry) != b.get(entry):
            return "corpus entry %s: decoded content/listing digest under host %d.%d differs from host %d.%d" % (entry, host[0], host[1], ref_host[0], ref_host[1])
        return None

    return Ob(id="C07.hosts.%d%d" % host, prop="C07", params=[], body=None, direct=q, replay=replay, funcs=FUNCS, region="hosts",
              skeleton="repository bytecode corpus, %d programs compiled by each real interpreter 2.7-3.13, and the opcode tables, decoded under CPython %d.%d vs 3.12" % ((len(PROGRAMS),) + host),
              bound="211 corpus files + the compiled programs", timeout=900, oracle="R-real: the real host interpreters (confirmation run)")


def listing_repr_ob():
    """listing text of a module with a nested function: fast path vs portable unmarshaller on the host"""
    src = "def f():\n    return 1\n"

    def texts():
        import re
        import xdis.load as LD
        import xdis.magics as M
        import xdis.unmarshal as U
        from xdis.disasm import disco
        top = compile(src, "p.py", "exec")
        data = marshal.dumps(top)
        hdr = M.int2magic(M.PYTHON_MAGIC_INT) + b"\0" * 12
        fast = LD.load_module_from_file_object(io.BytesIO(hdr + data), code_objects={})[3]
        portable = U.load_code(io.BytesIO(data), M.PYTHON_MAGIC_INT, False, {})
        out = []
        for co in (fast, portable):
            buf = io.StringIO()
            disco(tuple(sys.version_info[:2]), co, 0, out=buf, magic_int=M.PYTHON_MAGIC_INT, source_size=1)
            out.append(re.sub(r" at 0x[0-9a-fA-F]+", " at 0x?", buf.getvalue()))
        return out

    def q():
        a, b = texts()
        if a != b:
            return "refuted", "listing differs", {"n": 0}, 0, 0.0
        return "confirmed", "", None, 0, 0.0

    def replay(n):
        a, b = texts()
        if a == b:
            return None
        la, lb = a.split("\n"), b.split("\n")
        d = [(x, y) for x, y in zip(la, lb) if x != y][:1]
        return "listing of the same bytes differs by loader path: fast path %r, portable %r" % d[0]

    return Ob(id="C07.listing.code-object-repr", prop="C07", params=[], body=None, direct=q, replay=replay, funcs=FUNCS,
              region="listing-code-object-repr", skeleton="listing text, fast path vs portable, module with a nested function",
              bound="one program", timeout=60, oracle="the two loader paths must give the same text")


def generate(tier, seed):
    obs = [listing_repr_ob()]
    picked = []
    for ob in c10.generate("quick", seed):
        nm = ob.id.split(".", 2)[2]
        if ob.id.startswith(("C10.38.", "C10.27.", "C10.312.")) and nm in ("int32", "long2n", "uni1", "bytes1", "(2", "dict1", "share-(", "uni-eacute"):
            picked.append(ob)
    for ob in c01.generate("quick", seed):
        if ob.id in ("C01.m3413.scalars", "C01.m3413.names", "C01.m62211.names", "C01.m3531.nested-refs", "C01.m3495.localsplus",
                     "C01.m3230.nested"):
            picked.append(ob)
    if tier == "thorough":
        picked = [ob for ob in c10.generate("quick", seed) + c01.generate("quick", seed) if ob.direct is None]
    for ob in picked:
        obs.append(with_host(ob))
    for i, src in enumerate(PROGRAMS):
        obs.append(loader_ob(i, src))
    for h in ((3, 8), (3, 9), (3, 10), (3, 11), (3, 13)):
        obs.append(hosts_ob(h))
    return obs
