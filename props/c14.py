"""C14 - xdis.marsh and the built-in marshal are interchangeable on plain values."""
import marshal
import struct

from engine.runner import Ob
from props.common import mkbytes
from refmodels import marshal_ref as R

LEVEL = "model_checking"
EXPLANATION = (
    "Bounded symbolic model checking of the real xdis.marsh writer and reader. A value tree has a concrete shape "
    "(None/bool/Ellipsis/StopIteration/int/float/complex/bytes/text/tuple/list/set/frozenset/dict, depth <= 2, width <= 2) "
    "and symbolic leaves (ints with |x| < 2^40 (quick) / 2^70 (thorough), text code points over the whole range, byte values). Direction 1: "
    "xdis.marsh.dumps(v) is executed symbolically and its output is decoded by the reference transcription of CPython's "
    "marshal reader (validated against the real interpreters); the decoded value must equal v in kind and value for all "
    "leaf values. Direction 2: a reference writer for marshal format versions 0 and 1 (validated against the host's real "
    "marshal.dumps at run time) produces the bytes, xdis.marsh.loads decodes them symbolically and must return v. "
    "Counterexamples are replayed with the host's real marshal.loads / marshal.dumps.")
BOUNDS = {"quick": "depth <= 2, width <= 2; ints |x| < 2^70; text of 1-2 code points (each symbolic over a 4-value window "
                   "at every UTF-8 length boundary and at both edges of the surrogate gap); bytes of 0-2 symbolic bytes; floats/complex from a boundary set",
          "thorough": "same shapes + width 3 and all leaf-kind pairs in containers"}
OUTSIDE = ["values deeper/wider than the bound", "arbitrary 64-bit float patterns (repr/float() are C code)",
           "hosts other than 3.12 (replay only uses the host)",
           "the file interface xdis.marsh.dump(x, f) / load(f): the statement is about dumps/loads; on a 3.x host load(f) looks its type byte up "
           "as text and dump writes text chunks, so neither works with a binary file at all (noted, not a claim)",
           "sizes between 3 and 32766 and above 70001 for whole values (the size field itself is decided for every 32-bit value by C14.field.w_long)"]
ASSUMPTIONS = ["CrossHair/z3 soundness; CrossHair's models of chr/ord/str concatenation",
               "refmodels/marshal_ref.py reader (validated) and the reference writer below (validated vs host marshal.dumps)"]
FUNCS = ["xdis.marsh.dumps", "xdis.marsh.loads", "xdis.marsh._Marshaller.dump*", "xdis.marsh._Marshaller.w_long/w_short/w_long64",
         "xdis.marsh._FastUnmarshaller.*", "xdis.marsh (chunk-to-bytes assembly in dumps)"]

FLOATS = [("1.5", 1.5), ("-0.0", -0.0), ("inf", float("inf")), ("nan", float("nan")), ("1e100", 1e100), ("sub", 5e-324),
          ("third", 1.0 / 3.0), ("d17a", 0.1 + 0.2), ("d17b", 2 ** 0.5), ("max", 1.7976931348623157e308), ("2p53p1", 9007199254740993.0),
          ("minnorm", 2.2250738585072014e-308)]


# ---- value shapes --------------------------------------------------------------------------------------------------

def leaf_shapes(tier="quick"):
    big = 40 if tier == "quick" else 70
    out = [("none", ("const", None)), ("true", ("const", True)), ("false", ("const", False)), ("ellipsis", ("const", Ellipsis)),
           ("stopiter", ("const", StopIteration)), ("int32", ("int", -(1 << 31), (1 << 31) - 1)),
           ("int-big", ("int", -(1 << big), 1 << big)), ("bytes0", ("bytes", 0)), ("bytes1", ("bytes", 1)), ("bytes2", ("bytes", 2)),
           ("text0", ("text", [])), # text is encoded by C code (str.encode): CrossHair realises the code point, one path per value, so each
           # symbolic code point ranges over a 4-value window across a UTF-8 length boundary
           ("text-ascii", ("text", [(0x41, 0x44)])), ("text-latin1", ("text", [(0x7e, 0x81)])),
           ("text-bmp", ("text", [(0x7fe, 0x801)])), ("text-bmp2", ("text", [(0xfffc, 0xffff)])),
           ("text-astral", ("text", [(0xfffe, 0x10001)])), ("text-top", ("text", [(0x10fffc, 0x10ffff)])),
           ("text-presurr", ("text", [(0xd7fc, 0xd7ff)])), ("text-postsurr", ("text", [(0xe000, 0xe003)])),
           # unpaired surrogates are text too ("text of any code points"): both ends of the block, and the low half
           ("text-surr-lo", ("text", [(0xd7fe, 0xd801)])), ("text-surr-mid", ("text", [(0xdbfe, 0xdc01)])),
           ("text-surr-dc80", ("text", [(0xdc7e, 0xdc81)])), ("text-surr-hi", ("text", [(0xdffe, 0xe001)])),
           ("text-surr-pair", ("text", [(0xd83c, 0xd83d), (0xdf00, 0xdf01)])),
           ("text2", ("text", [(0x41, 0x42), (0xfe, 0x101)]))]
    for nm, f in FLOATS:
        out.append(("float-" + nm, ("const", f)))
    out.append(("complex", ("const", complex(1.5, -0.0))))
    out.append(("complex-nan", ("const", complex(float("nan"), float("inf")))))
    return out


def shapes(tier):
    out = list(leaf_shapes(tier))
    small = ("int", -5, 5)
    kids = [("int32", ("int", -(1 << 31), (1 << 31) - 1)), ("text", ("text", [(0x41, 0x44)])), ("none", ("const", None)),
            ("bytes1", ("bytes", 1)), ("float", ("const", 2.5))]
    for cname in ("tuple", "list"):
        out.append(("%s0" % cname, (cname, [])))
        for kn, k in kids:
            out.append(("%s1-%s" % (cname, kn), (cname, [k])))
        out.append(("%s2" % cname, (cname, [kids[0][1], kids[1][1]])))
        out.append(("%s-nested" % cname, (cname, [("tuple", [kids[0][1]]), ("list", [("const", None)])])))
    for cname in ("set", "frozenset"):
        out.append(("%s0" % cname, (cname, [])))
        out.append(("%s1" % cname, (cname, [small])))
        out.append(("%s2" % cname, (cname, [("const", 7), ("const", "ab")])))
        out.append(("tuple-of-%s" % cname, ("tuple", [(cname, [("const", 1), ("const", 2)]), kids[0][1]])))
    out.append(("dict0", ("dict", [])))
    out.append(("dict1", ("dict", [(("const", "k"), kids[0][1])])))
    out.append(("dict-nonekey", ("dict", [(("const", None), kids[0][1]), (("const", 3), ("const", None))])))
    out.append(("dict2", ("dict", [(("const", 4), ("text", [(0x41, 0x44)])), (("const", "z"), ("list", [kids[0][1]]))])))
    if tier == "thorough":
        for a in kids:
            for b in kids:
                out.append(("tuple2-%s-%s" % (a[0], b[0]), ("tuple", [a[1], b[1]])))
        out.append(("list3", ("list", [kids[0][1], kids[1][1], kids[3][1]])))
    return out


class VB:
    """builds parameters for a shape and, later, the value from kw"""

    def __init__(self):
        self.params = []
        self.n = 0

    def new(self, lo, hi):
        nm = "v%d" % self.n
        self.n += 1
        self.params.append((nm, (lo, hi)))
        return nm

    def plan(self, sh):
        k = sh[0]
        if k == "const":
            return ("const", sh[1])
        if k == "int":
            return ("int", self.new(sh[1], sh[2]))
        if k == "bytes":
            return ("bytes", [self.new(0, 255) for _ in range(sh[1])])
        if k == "text":
            return ("text", [self.new(lo, hi) for lo, hi in sh[1]])
        if k in ("tuple", "list", "set", "frozenset"):
            return (k, [self.plan(c) for c in sh[1]])
        if k == "dict":
            return ("dict", [(self.plan(a), self.plan(b)) for a, b in sh[1]])
        raise ValueError(sh)


def value_of(plan, kw):
    k = plan[0]
    if k == "const":
        return plan[1]
    if k == "int":
        return kw[plan[1]]
    if k == "bytes":
        return mkbytes([kw[n] for n in plan[1]])
    if k == "text":
        # one path per code point (the windows are four values wide): the text is a real str, so that str.encode inside
        # xdis runs the interpreter's codec with its error handler - CrossHair's own model of encode() on a symbolic str
        # ignores the handler (it missed seed C13-e, "surrogateescape" for "surrogatepass")
        from crosshair.core import realize
        s = ""
        for n in plan[1]:
            s = s + chr(realize(kw[n]))
        return s
    if k == "tuple":
        return tuple(value_of(c, kw) for c in plan[1])
    if k == "list":
        return [value_of(c, kw) for c in plan[1]]
    if k == "set":
        return set(value_of(c, kw) for c in plan[1])
    if k == "frozenset":
        return frozenset(value_of(c, kw) for c in plan[1])
    if k == "dict":
        d = {}
        for a, b in plan[1]:
            d[value_of(a, kw)] = value_of(b, kw)
        return d


def same(a, b):
    """kind-and-value equality of two plain Python values (symbolic-safe: no hashing of symbolics beyond containers
    that already exist)"""
    for t in (bool, int, float, complex, bytes, str, tuple, list, set, frozenset, dict):
        if isinstance(a, t) or isinstance(b, t):
            if t is int and (isinstance(a, bool) or isinstance(b, bool)):
                continue
            if not (isinstance(a, t) and isinstance(b, t)):
                return False
            if t is bool:
                return a is b
            if t is float:
                return R._feq(a, b)
            if t is complex:
                return R._feq(a.real, b.real) and R._feq(a.imag, b.imag)
            if t in (tuple, list):
                return len(a) == len(b) and all(same(x, y) for x, y in zip(a, b))
            if t in (set, frozenset):
                if len(a) != len(b):
                    return False
                bs = list(b)
                for x in a:
                    if not any(same(x, y) for y in bs):
                        return False
                return True
            if t is dict:
                if len(a) != len(b):
                    return False
                for k1, v1 in a.items():
                    if not any(same(k1, k2) and same(v1, v2) for k2, v2 in b.items()):
                        return False
                return True
            if t is bytes:
                return R.seq_eq(a, b)
            return a == b
    return a is b


# ---- reference writer (marshal versions 0 and 1 as Python 3 writes them) ----------------------------------------------

def ref_dumps(v, version, out=None):
    top = out is None
    if out is None:
        out = []

    def i32(x):
        x = x % 4294967296
        out.extend([x % 256, (x // 256) % 256, (x // 65536) % 256, (x // 16777216) % 256])

    if v is None:
        out.append(ord("N"))
    elif v is True:
        out.append(ord("T"))
    elif v is False:
        out.append(ord("F"))
    elif v is Ellipsis:
        out.append(ord("."))
    elif v is StopIteration:
        out.append(ord("S"))
    elif isinstance(v, int):
        if -2147483648 <= v <= 2147483647:
            out.append(ord("i"))
            i32(v)
        else:
            out.append(ord("l"))
            neg = v < 0
            x = -v if neg else v
            digits = []
            while x:
                digits.append(x % 32768)
                x = x // 32768
            i32(-len(digits) if neg else len(digits))
            for d in digits:
                out.extend([d % 256, d // 256])
    elif isinstance(v, float):
        s = ("%.17g" % v).encode()     # marshal.c: PyOS_double_to_string(v, 'g', 17, 0)
        out.append(ord("f"))
        out.append(len(s))
        out.extend(s)
    elif isinstance(v, complex):
        out.append(ord("x"))
        for part in (v.real, v.imag):
            s = ("%.17g" % part).encode()
            out.append(len(s))
            out.extend(s)
    elif isinstance(v, bytes):
        out.append(ord("s"))
        i32(len(v))
        out.extend(list(v))
    elif isinstance(v, str):
        enc = []
        for ch in v:
            cp = ord(ch)
            if cp < 0x80:
                enc.append(cp)
            elif cp < 0x800:
                enc.extend([0xC0 + cp // 64, 0x80 + cp % 64])
            elif cp < 0x10000:
                enc.extend([0xE0 + cp // 4096, 0x80 + (cp // 64) % 64, 0x80 + cp % 64])
            else:
                enc.extend([0xF0 + cp // 262144, 0x80 + (cp // 4096) % 64, 0x80 + (cp // 64) % 64, 0x80 + cp % 64])
        out.append(ord("u"))
        i32(len(enc))
        out.extend(enc)
    elif isinstance(v, tuple):
        out.append(ord("("))
        i32(len(v))
        for x in v:
            ref_dumps(x, version, out)
    elif isinstance(v, list):
        out.append(ord("["))
        i32(len(v))
        for x in v:
            ref_dumps(x, version, out)
    elif isinstance(v, (set, frozenset)):
        out.append(ord("<") if isinstance(v, set) else ord(">"))
        i32(len(v))
        for x in v:
            ref_dumps(x, version, out)
    elif isinstance(v, dict):
        out.append(ord("{"))
        for k, x in v.items():
            ref_dumps(k, version, out)
            ref_dumps(x, version, out)
        out.append(ord("0"))
    else:
        raise ValueError("unmarshallable")
    return out


# ---- obligations ---------------------------------------------------------------------------------------------------

def dumps_ob(name, sh, tier):
    vb = VB()
    plan = vb.plan(sh)

    def body(**kw):
        import xdis.marsh as MS
        v = value_of(plan, kw)
        out = MS.dumps(v)
        assert isinstance(out, bytes), "dumps returned %s" % type(out).__name__
        data = list(out)
        try:
            ref, end = R.load(data, 0, R.Ctx((3, 12)))
        except R.BadMarshal as e:
            raise AssertionError("not-loadable: marshal would reject the output %r: %s" % (out, e))
        assert end == len(data), "trailing bytes after the object"
        d = R.match(v, ref)
        assert d is None, "roundtrip: " + str(d)

    def replay(**kw):
        import xdis.marsh as MS
        v = value_of(plan, kw)
        try:
            out = MS.dumps(v)
        except Exception as e:
            return "xdis.marsh.dumps(%r) raises %s: %s" % (v, type(e).__name__, str(e)[:120])
        try:
            back = marshal.loads(out)
        except Exception as e:
            return "marshal.loads(xdis.marsh.dumps(%r) = %r) raises %s: %s" % (v, out, type(e).__name__, e)
        if same(back, v):
            return None
        return "marshal.loads(xdis.marsh.dumps(%r) = %r) = %r" % (v, out, back)

    return Ob(id="C14.dumps.%s" % name, prop="C14", params=vb.params, body=body, replay=replay, funcs=FUNCS,
              region="dumps.%s" % name.split("-")[0], skeleton="xdis.marsh.dumps of shape %r" % (sh,),
              bound="symbolic leaves per shape", timeout=90 if tier == "quick" else 300, struct_model=False,
              oracle="R-model marshal reader (3.12); replay with the host's marshal.loads")


def loads_ob(name, sh, version, tier):
    vb = VB()
    plan = vb.plan(sh)

    def body(**kw):
        import xdis.marsh as MS
        v = value_of(plan, kw)
        data = ref_dumps(v, version)
        got = MS.loads(mkbytes(data))
        assert same(got, v), "loads: %r != %r" % (got, v)

    def replay(**kw):
        import xdis.marsh as MS
        v = value_of(plan, kw)
        data = marshal.dumps(v, version)
        if bytes(ref_dumps(v, version)) != data and not isinstance(v, (set, frozenset, dict)):
            raise RuntimeError("reference writer disagrees with marshal.dumps(%r, %d)" % (v, version))
        try:
            got = MS.loads(data)
        except Exception as e:
            return "xdis.marsh.loads(marshal.dumps(%r, %d) = %r) raises %s: %s" % (v, version, data, type(e).__name__, str(e)[:120])
        if same(got, v):
            return None
        return "xdis.marsh.loads(marshal.dumps(%r, %d) = %r) = %r" % (v, version, data, got)

    return Ob(id="C14.loads.v%d.%s" % (version, name), prop="C14", params=vb.params, body=body, replay=replay, funcs=FUNCS,
              region="loads.%s" % name.split("-")[0], skeleton="xdis.marsh.loads of marshal version %d encoding of %r" % (version, sh),
              bound="symbolic leaves per shape", timeout=90 if tier == "quick" else 300, struct_model=False,
              oracle="reference writer (validated vs host marshal.dumps); replay with host marshal.dumps")



# ---- the fixed-width field encoders/decoders every size, count and small int goes through -------------------------------

FIELDS = {"w_short": (16, False), "w_long": (32, True)}   # w_long64/_r_long64 (TYPE_INT64) are not reachable from dumps/loads of a 3.x host value


def field_writer_ob(fn, bits, signed):
    lo, hi = (-(1 << (bits - 1)), (1 << (bits - 1)) - 1)
    if not signed:
        lo, hi = -(1 << (bits - 1)), (1 << bits) - 1    # w_short is used for 15-bit digits and 16-bit fields alike

    def run(n):
        import xdis.marsh as MS
        out = []
        m = MS._Marshaller(out.append, (3, 12))
        getattr(m, fn)(n)
        return [ord(ch) for piece in out for ch in piece]

    def body(n):
        got = run(n)
        want = [(n >> (8 * i)) & 0xFF for i in range(bits // 8)]
        assert got == want, "field: %s(%d) wrote %r" % (fn, n, got)

    def replay(n):
        got = run(n)
        want = list((n & ((1 << bits) - 1)).to_bytes(bits // 8, "little"))
        return None if got == want else "xdis.marsh._Marshaller.%s(%d) writes %r, little-endian two's complement is %r" % (fn, n, bytes(got), bytes(want))

    return Ob(id="C14.field.%s" % fn, prop="C14", params=[("n", (lo, hi))], body=body, replay=replay, funcs=FUNCS, region="field.%s" % fn,
              skeleton="_Marshaller.%s(n): the field every size/count/digit is written with" % fn, bound="n over the whole %d-bit range" % bits,
              timeout=120, struct_model=False, oracle="little-endian two's complement (int.to_bytes at replay)")


def field_reader_ob(fn, bits, fast):
    nb = bits // 8

    def run(data):
        import xdis.marsh as MS
        if fast:
            u = MS._FastUnmarshaller(data, (3, 12))
            return getattr(MS, "_" + fn)(u)
        buf = MS._StringBuffer(data)
        return getattr(MS._Unmarshaller(buf.read, (3, 12)), fn)()

    def body(**kw):
        bs = [kw["b%d" % i] for i in range(nb)]
        got = run(mkbytes(bs))
        x = sum(b << (8 * i) for i, b in enumerate(bs))
        want = x - (1 << bits) if bs[-1] >= 0x80 else x
        assert got == want, "field: %s(%r) read %r" % (fn, bs, got)

    def replay(**kw):
        data = bytes(kw["b%d" % i] for i in range(nb))
        got = run(data)
        want = int.from_bytes(data, "little", signed=True)
        return None if got == want else "xdis.marsh %s%s of %r gives %r, the field holds %r" % ("_" if fast else "_Unmarshaller.", fn, data, got, want)

    return Ob(id="C14.field.%s%s" % ("fast." if fast else "", fn), prop="C14", params=[("b%d" % i, (0, 255)) for i in range(nb)], body=body, replay=replay,
              funcs=FUNCS, region="field.%s" % fn, skeleton="%s over %d symbolic bytes (%s reader)" % (fn, nb, "string-buffer" if fast else "file"),
              bound="all %d-byte fields" % nb, timeout=120, struct_model=False, oracle="little-endian two's complement (int.from_bytes at replay)")


# ---- sizes and counts beyond 15/16 bits (concrete values, both directions, decided by the host's marshal) ----------------

LARGE_SIZES = [32767, 32768, 65535, 65536, 70001]


def large_values(n):
    yield "bytes", b"y" * n
    yield "text-ascii", "a" * n
    yield "text-2byte", "\xe9" * (n // 2) + "a" * (n % 2)        # UTF-8 size n, n//2 + n%2 code points
    yield "tuple", tuple(range(n))
    yield "list", [None] * n
    yield "frozenset", frozenset(range(n))
    yield "long", (1 << (15 * n - 1)) + 12345                          # n 15-bit digits
    yield "neglong", -((1 << (15 * n - 1)) + 7)
    yield "nested", (1, [b"z" * n], {"k": "b" * n})


def large_ob(n):
    def bad():
        import xdis.marsh as MS
        out = []
        for kind, v in large_values(n):
            try:
                enc = MS.dumps(v)
                back = marshal.loads(enc)
                if not (type(back) is type(v) and back == v):
                    out.append("marshal.loads(xdis.marsh.dumps(<%s of size %d>)) gives a different value (encoding starts %r)" % (kind, n, enc[:8]))
            except Exception as e:
                out.append("marshal.loads(xdis.marsh.dumps(<%s of size %d>)) raises %s: %s" % (kind, n, type(e).__name__, str(e)[:80]))
            for version in (0, 2):
                try:
                    got = MS.loads(marshal.dumps(v, version))
                    if not (type(got) is type(v) and got == v):
                        out.append("xdis.marsh.loads(marshal.dumps(<%s of size %d>, %d)) gives a different value" % (kind, n, version))
                except Exception as e:
                    out.append("xdis.marsh.loads(marshal.dumps(<%s of size %d>, %d)) raises %s: %s" % (kind, n, version, type(e).__name__, str(e)[:80]))
        return out

    def q():
        b = bad()
        if b:
            return "refuted", b[0][:300], {"size": n}, 0, 0.0
        return "confirmed", "9 kinds of value, both directions", None, 0, 0.0

    def replay(size):
        b = bad()
        return b[0] if b else None

    return Ob(id="C14.large.%d" % n, prop="C14", params=[], body=None, direct=q, replay=replay, funcs=FUNCS, region="large",
              skeleton="values whose size/count/digit-count field is %d: bytes, text, tuple, list, frozenset, ints, nested" % n,
              bound="concrete values (sizes 32767..70001)", timeout=300, oracle="R-real: the host's marshal.loads / marshal.dumps")


_VAL = [0]


def evidence_extra():
    return {"oracle_validations": _VAL[0]}


def validate_writer(seed, tier):
    import random
    rnd = random.Random(seed)
    n = 0
    for name, sh in shapes(tier):
        vb = VB()
        plan = vb.plan(sh)
        for _ in range(5):
            kw = {nm: rnd.choice([lo, hi, rnd.randint(lo, hi)]) for nm, (lo, hi) in vb.params}
            v = value_of(plan, kw)
            if isinstance(v, (set, frozenset)) and len(v) > 1:
                continue
            for version in (0, 1):
                if bytes(ref_dumps(v, version)) != marshal.dumps(v, version):
                    raise RuntimeError("reference writer != marshal.dumps(%r, %d): %r vs %r" % (
                        v, version, bytes(ref_dumps(v, version)), marshal.dumps(v, version)))
                n += 1
    return n


def generate(tier, seed):
    _VAL[0] = validate_writer(seed, tier)
    obs = []
    for name, sh in shapes(tier):
        obs.append(dumps_ob(name, sh, tier))
        for version in (0, 1):
            if tier == "quick" and version == 1 and not name.startswith(("int", "text", "float", "tuple2", "dict1")):
                continue
            obs.append(loads_ob(name, sh, version, tier))
    # unit obligations on private helpers: generated only while the helpers exist under these names (a refactoring that
    # renames them loses these obligations, not the check: the public-API obligations above and C14.large remain)
    import xdis.marsh as MS
    for fn, (bits, signed) in FIELDS.items():
        if hasattr(getattr(MS, "_Marshaller", None), fn):
            obs.append(field_writer_ob(fn, bits, signed))
    for fn, bits in (("r_short", 16), ("r_long", 32)):
        if hasattr(MS, "_FastUnmarshaller") and hasattr(MS, "_" + fn):
            obs.append(field_reader_ob(fn, bits, True))     # the string-buffer reader loads() uses; load(f)/dump(x, f) are outside the statement
    for n in LARGE_SIZES:
        obs.append(large_ob(n))
    return obs
