"""C10 - every marshal encoding of a constant decodes to the same value."""
import struct

from engine.runner import Ob
from props import mshapes as S
from props.common import SymReader, mkbytes
from refmodels import marshal_ref as R

LEVEL = "model_checking"
EXPLANATION = (
    "Bounded symbolic model checking of the real unmarshaller: a constant is described by a concrete skeleton "
    "(marshal format class selected by the file magic, type-code tree, FLAG_REF subset, lengths, reference "
    "indices) whose payload bytes (int/long digits, text and bytes content) are symbolic; it is wrapped as the only "
    "element of co_consts of a minimal code object of that version and read by xdis.unmarshal.load_code through "
    "a position-tracking reader. For all payload values at once the decoded constant must equal, in kind and value, "
    "what a reference transcription of marshal.c r_object yields on the same bytes, and the payload must be consumed "
    "exactly. The reference model is validated against the real marshal.loads of 2.7 and 3.6-3.13 on every run, and "
    "each counterexample is replayed on the real interpreter of the producing version.")
BOUNDS = {
    "quick": "format classes 2.7, 3.3, 3.8, 3.12 (+2.4 for text floats, 3.4 for the v3/v4 boundary); every type code valid "
             "for the class; ints: all 2^32 / 2^64 payloads, longs of 1-3 15-bit digits both signs; text/bytes of 0-2 "
             "symbolic bytes each ranging over 4 values around the ASCII boundary (+ fixed non-ASCII/surrogate samples); floats from a boundary set; containers of 0-2 "
             "children, depth <= 2, sizes 255/256/257; every FLAG_REF subset on <= 3 objects; back-references",
    "thorough": "format classes 1.5, 2.3, 2.4, 2.5, 2.7, 3.0, 3.3, 3.4, 3.6, 3.8, 3.10, 3.11, 3.12, 3.13; same shapes + depth-3 nestings",
}
OUTSIDE = ["strings longer than 2 symbolic bytes; containers > 3 children other than the 255/256/257 cases",
           "arbitrary 64-bit float patterns beyond the boundary set (struct '<d' is C code)",
           "containers that contain themselves through a back-reference",
           "malformed payloads (digits >= 2^15, unnormalised longs, NULL inside tuples): C11",
           "format versions with no interpreter (<= 2.6, 3.0-3.5) rest on the reference model alone"]
ASSUMPTIONS = ["xdis.unmarshal.long (LongTypeForPython3 constructor, C-level int subclass creation) stubbed by identity during symbolic runs",
               "CrossHair/z3 soundness; bit-operation rules; pure-Python struct model for integer formats",
               "refmodels/marshal_ref.py (validated vs real marshal.loads at run time)",
               "Python-2 str constants follow xdis's documented convention (text when UTF-8, else bytes)"]
FUNCS = ["xdis.unmarshal.load_code", "xdis.unmarshal._VersionIndependentUnmarshaller.r_object", "...t_int32", "...t_long",
         "...t_int64", "...t_float", "...t_binary_float", "...t_complex", "...t_binary_complex", "...t_string",
         "...t_ASCII*", "...t_short_ASCII*", "...t_interned", "...t_unicode", "...t_small_tuple", "...t_tuple", "...t_list",
         "...t_frozenset", "...t_set", "...t_dict", "...t_python2_string_reference", "...t_object_reference", "...t_code",
         "...r_ref", "...r_ref_reserve", "...r_ref_insert", "xdis.unmarshal.compat_str", "xdis.cross_types.*",
         "xdis.codetype.to_portable"]

MAGIC = {(1, 5): 20121, (2, 3): 62011, (2, 4): 62061, (2, 5): 62131, (2, 7): 62211, (3, 0): 3131, (3, 3): 3230,
         (3, 4): 3310, (3, 6): 3379, (3, 8): 3413, (3, 10): 3439, (3, 11): 3495, (3, 12): 3531, (3, 13): 3571}
REAL = {(2, 7), (3, 6), (3, 8), (3, 10), (3, 11), (3, 12), (3, 13)}


def _d(x):
    return list(struct.pack("<d", x))


FLOATS = [("nan", _d(float("nan"))), ("inf", _d(float("inf"))), ("ninf", _d(float("-inf"))), ("nzero", _d(-0.0)),
          ("sub", [1, 0, 0, 0, 0, 0, 0, 0]), ("one5", _d(1.5)), ("nan2", [1, 0, 0, 0, 0, 0, 0xf8, 0xff])]


def shapes_for(v, tier):
    """[(name, shape)] of constants valid for producing version v"""
    py3 = v >= (3, 0)
    refs = v >= (3, 4)
    flags = (False, True) if refs else (False,)
    out = []
    for f in flags:
        sfx = ".R" if f else ""
        out.append(("int32" + sfx, ("i", f)))
        for nd in (1, 2, 3):
            for neg in (False, True):
                out.append(("long%d%s%s" % (nd, "n" if neg else "p", sfx), ("l", f, nd, neg)))
        out.append(("long0" + sfx, ("raw", "l", f, [0, 0, 0, 0])))
        for n in (0, 1, 2):
            out.append(("bytes%d%s" % (n, sfx), ("s", f, n, False)))
            out.append(("uni%d%s" % (n, sfx), ("u", f, n)))
        for nm, payload in (("eacute", [0xC3, 0xA9]), ("euro", [0xE2, 0x82, 0xAC]), ("astral", [0xF0, 0x9F, 0x98, 0x80]),
                            ("surrogate", [0xED, 0xA0, 0x80])):
            out.append(("uni-%s%s" % (nm, sfx), ("str", "u", f, payload)))
        if v >= (2, 5):
            for nm, bits in FLOATS:
                out.append(("bfloat-%s%s" % (nm, sfx), ("raw", "g", f, bits)))
            out.append(("bcomplex" + sfx, ("raw", "y", f, _d(1.5) + _d(-0.0))))
        for nm, txt in (("1.5", b"1.5"), ("-0.0", b"-0.0"), ("1e10", b"1e10"), ("inf", b"inf"), ("nan", b"nan")):
            out.append(("tfloat-%s%s" % (nm, sfx), ("raw", "f", f, [len(txt)] + list(txt))))
        out.append(("tcomplex" + sfx, ("raw", "x", f, [3] + list(b"1.5") + [2] + list(b"-2"))))
        kids1 = [("i", False), ("N",)]
        for t in (["(", "[", "<", ">"] if v >= (2, 5) else ["(", "["]) + ([")"] if refs else []):
            out.append(("%s0%s" % (t, sfx), (t, f, [])))
            out.append(("%s1%s" % (t, sfx), (t, f, [("i", False)])))
            out.append(("%s2%s" % (t, sfx), (t, f, [("i", False), ("u" if py3 else "s", False, 1)])))
            out.append(("%snest%s" % (t, sfx), (t, f, [("(", False, [("i", False)]), ("N",)])))
        if not f:
            # both string kinds as children of every container kind, directly and one level down (the bytes/text decision
            # travels down the recursion as an argument)
            for t in (["(", "[", "<", ">"] if v >= (2, 5) else ["(", "["]) + ([")"] if refs else []):
                out.append(("%s-strkinds" % t, (t, f, [("s", False, 1, False), ("u", False, 1)])))
                out.append(("%s-strkinds-nested" % t, (t, f, [("(", False, [("s", False, 1, False), ("u", False, 1)])])))
            out.append(("dict-strkinds", ("{", f, [(("iconst", False, 1), ("s", False, 1, False)), (("iconst", False, 2), ("u", False, 1))])))
        out.append(("dict0" + sfx, ("{", f, [])))
        out.append(("dict1" + sfx, ("{", f, [(("i", False), ("u" if py3 else "s", False, 1))])))
        out.append(("dict-nonekey" + sfx, ("{", f, [(("N",), ("i", False)), (("iconst", False, 7), ("T",))])))
        out.append(("dict-noneval" + sfx, ("{", f, [(("iconst", False, 1), ("N",)), (("iconst", False, 2), ("i", False))])))
    if not py3:
        out.append(("int64", ("I", False)))
        if v >= (2, 4):
            out.append(("interned+strref", ("(", False, [("t", False, 1), ("R", 0), ("t", False, 2), ("R", 1), ("R", 0)])))
    if py3 and v < (3, 4):
        out.append(("int64", ("I", False)))
    if refs:
        for t in ("a", "A", "z", "Z", "t"):
            for f in (False, True):
                for n in (0, 1, 2):
                    out.append(("%s%d%s" % (t, n, ".R" if f else ""), (t, f, n)))
        # interned text with non-ASCII content is written as 't' (UTF-8), alone and referenced again
        for nm, payload in (("eacute", [0xC3, 0xA9]), ("euro", [0xE2, 0x82, 0xAC]), ("astral", [0xF0, 0x9F, 0x98, 0x80])):
            out.append(("t-%s" % nm, ("str", "t", False, payload)))
        out.append(("t-eacute-shared", ("(", False, [("str", "t", True, [0x63, 0xC3, 0xA9]), ("r", 0), ("str", "u", False, [0xC3, 0xA9])])))
        # sharing patterns: k-fold, nested, references to completed flagged containers
        out.append(("share-int3", ("(", False, [("i", True), ("r", 0), ("r", 0)])))
        out.append(("share-str-in-list", ("[", False, [("z", True, 1), ("(", False, [("r", 0), ("r", 0)])])))
        for t in ("(", ")", "[", "<", ">"):
            out.append(("share-%s" % t, ("(", False, [(t, True, [("i", False)]), ("r", 0)])))
            out.append(("share-%s-after-child" % t, ("(", False, [(t, True, [("i", True)]), ("r", 0), ("r", 1)])))
        out.append(("share-dict", ("(", False, [("{", True, [(("i", False), ("N",))]), ("r", 0)])))
        out.append(("share-long", ("(", False, [("l", True, 2, True), ("r", 0)])))
        out.append(("share-long0", ("(", False, [("raw", "l", True, [0, 0, 0, 0]), ("i", True), ("r", 1), ("r", 0)])))
        out.append(("share-float", ("(", False, [("raw", "g", True, _d(2.5)), ("r", 0)])))
        out.append(("share-two", ("(", True, [("i", True), ("u", True, 1), ("r", 2), ("r", 1)])))
        out.append(("flag-on-singletons", ("(", False, [("raw", "N", True, []), ("i", True), ("r", 0)])))
    for n in (255, 256, 257):
        for t in (["(", "["] + ([")"] if refs and n == 255 else [])):
            out.append(("%s-size%d" % (t, n), (t, False, [("i", False)] + [("N",)] * (n - 2) + [("i", False)])))
    if tier == "thorough":
        out.append(("deep3", ("(", False, [("[", False, [("(", False, [("i", False), ("u" if py3 else "s", False, 1)])]), ("l", False, 1, True)])))
        if refs:
            out.append(("deep3-refs", ("(", True, [("[", True, [("(", True, [("i", True)]), ("r", 2)]), ("r", 1), ("r", 3)])))
    return out


def stub_long():
    """LongTypeForPython3(n) constructs an int subclass instance in C (realises n): identity stub; the
    wrapper class itself is exercised in replay"""
    import xdis.unmarshal as U
    U.long = lambda n: n


def make_ob(v, name, shape, tier):
    magic = MAGIC[v]
    wrapper = ("c", False, v, {"co_consts": ("(", False, [shape])})
    b = S.build(wrapper)
    params = list(b.params)
    pres = list(b.pre)

    def pre(**kw):
        for p in pres:
            if not p(kw):
                return False
        return True

    def run(kw, carrier):
        import xdis.unmarshal as U
        items = S.realise(b, kw)
        data = carrier(items)
        rd = SymReader(data)
        co = U.load_code(rd, magic, False, {})
        return items, co, rd

    def body(**kw):
        items, co, rd = run(kw, mkbytes)
        ctx = R.Ctx(v)
        ref, endpos = R.load(items, 0, ctx)
        assert endpos == len(items), "reference model did not consume the payload (skeleton error)"
        d = R.match(co, ref, py3=v >= (3, 0))
        assert d is None, "decode: " + str(d)
        assert rd.pos == len(items), "consumed: reader at %r of %d" % (rd.pos, len(items))

    def replay(**kw):
        try:
            items, co, rd = run(kw, lambda it: bytes(it))
            got = R.tag_json(co)
            err = None
        except Exception as e:
            got, err = None, "%s: %s" % (type(e).__name__, e)
        data = bytes(S.realise(b, kw))
        if v in REAL:
            real = R.real_loads(v, [data])[0]
            if "err" in real:
                raise RuntimeError("real marshal.loads of %d.%d rejects the skeleton %r: %s" % (v[0], v[1], data, real["err"]))
            if err:
                return "load_code(%r, %d) raises %s; CPython %d.%d loads co_consts=%r" % (data, magic, err, v[0], v[1], real["ok"][1].get("co_consts"))
            if R.json_eq(got, real["ok"], v < (3, 0)) and rd.pos == len(data):
                return None
            return "load_code(%r, %d): xdis co_consts=%r (reader at %d/%d), CPython %d.%d co_consts=%r" % (
                data, magic, got[1].get("co_consts") if got[0] == "code" else got, rd.pos, len(data), v[0], v[1],
                real["ok"][1].get("co_consts"))
        # no interpreter for this version: the reference model is the oracle
        ctx = R.Ctx(v)
        ref, endpos = R.load(list(data), 0, ctx)
        if err:
            return "load_code(%r, %d) raises %s; reference model gives %r" % (data, magic, err, ref[1]["co_consts"])
        d = R.match(co, ref, py3=v >= (3, 0))
        if d is None and rd.pos == len(data):
            return None
        return "load_code(%r, %d): %s (reader at %d/%d) [reference model only: no %d.%d interpreter]" % (data, magic, d, rd.pos, len(data), v[0], v[1])

    ob = Ob(id="C10.%d%d.%s" % (v[0], v[1], name), prop="C10", params=params, body=body, pre=pre, replay=replay,
              funcs=FUNCS, region="%s" % name.split(".")[0],
              skeleton="producer %d.%d (magic %d), constant %s = %r" % (v[0], v[1], magic, name, _abbr(shape)),
              bound="%d symbolic payload bytes" % len(params), timeout=60 if tier == "quick" else 200,
              setup=stub_long,
              oracle="R-model marshal_ref" + ("; replay on real marshal.loads of %d.%d" % v if v in REAL else " (no interpreter)"))
    ob.run_concrete = lambda kw: run(kw, lambda it: bytes(it))
    return ob


def _abbr(shape):
    s = repr(shape)
    return s if len(s) < 160 else s[:160] + "..."


_VAL = [0]


def evidence_extra():
    return {"oracle_validations": _VAL[0]}


def validate_model(seed, versions):
    """push concrete instances of every shape through the model and the real marshal.loads"""
    import random
    rnd = random.Random(seed)
    n = 0
    for v in versions:
        if v not in REAL:
            continue
        datas, refs = [], []
        for name, shape in shapes_for(v, "quick"):
            b = S.build(("c", False, v, {"co_consts": ("(", False, [shape])}))
            for _try in range(20):
                kw = {nm: rnd.choice([lo, hi, rnd.randint(lo, hi)]) for nm, (lo, hi) in b.params}
                if all(p(kw) for p in b.pre):
                    break
            else:
                continue
            items = S.realise(b, kw)
            datas.append(bytes(items))
        reals = R.real_loads(v, datas)
        for data, real in zip(datas, reals):
            ctx = R.Ctx(v)
            try:
                ref, endpos = R.load(list(data), 0, ctx)
                ok_model = True
            except R.BadMarshal as e:
                ok_model = False
            if ("ok" in real) != ok_model:
                raise RuntimeError("R-model marshal_ref vs real %r disagree on acceptance of %r: model_ok=%r real=%r" % (v, data, ok_model, real))
            if ok_model and not _ref_json_eq(ref, real["ok"]):
                raise RuntimeError("R-model marshal_ref vs real %r disagree on %r:\n model %r\n real %r" % (v, data, ref, real["ok"]))
            n += 1
    return n


def _ref_json_eq(ref, rj):
    """reference tagged value vs real interpreter JSON"""
    k = ref[0]
    if k in ("none", "true", "false", "ellipsis", "stopiter"):
        return rj == [k]
    if k == "int":
        return rj == ["int", str(ref[1])]
    if k == "float":
        return rj[0] == "float" and R._feq(struct.unpack("<d", bytes(rj[1]))[0], ref[1])
    if k == "complex":
        return rj[0] == "complex" and R._feq(struct.unpack("<d", bytes(rj[1]))[0], ref[1]) and R._feq(struct.unpack("<d", bytes(rj[2]))[0], ref[2])
    if k in ("bytes", "s2", "u2"):
        return rj == [k, [int(x) for x in ref[1]]]
    if k == "str":
        raw = bytes(int(x) for x in ref[1])
        if ref[2] == "ascii":
            try:
                want = raw.decode("ascii")
            except UnicodeDecodeError:
                want = raw.decode("latin-1")
        else:
            want = raw.decode("utf-8", "surrogatepass")
        return rj == ["str", list(want.encode("utf-8", "surrogatepass"))]
    if k in ("tuple", "list"):
        return rj[0] == k and len(rj[1]) == len(ref[1]) and all(_ref_json_eq(a, b) for a, b in zip(ref[1], rj[1]))
    if k in ("set", "frozenset"):
        if rj[0] != k:
            return False
        items = []
        for b in ref[1]:
            if not any(R._tag_eq(b, c) for c in items):
                items.append(b)
        rest = list(rj[1])
        for b in items:
            for i, a in enumerate(rest):
                if _ref_json_eq(b, a):
                    del rest[i]
                    break
            else:
                return False
        return not rest
    if k == "dict":
        pairs = []
        for kk, vv in ref[1]:
            pairs = [(a, b) for (a, b) in pairs if not R._tag_eq(a, kk)] + [(kk, vv)]
        return rj[0] == "dict" and len(rj[1]) == len(pairs) and all(
            any(_ref_json_eq(kk, a) and _ref_json_eq(vv, b) for a, b in rj[1]) for kk, vv in pairs)
    if k == "code":
        if rj[0] != "code":
            return False
        f = dict(ref[1])
        for name in ("co_argcount", "co_kwonlyargcount", "co_posonlyargcount", "co_stacksize", "co_flags", "co_code",
                     "co_consts", "co_names", "co_filename", "co_name", "co_qualname", "co_firstlineno",
                     "co_exceptiontable", "co_varnames", "co_freevars", "co_cellvars", "co_nlocals"):
            if name in f and name in rj[1]:
                if name == "co_flags":
                    # PyCode_New computes CO_NOFREE (0x40) itself before 3.11: not part of the marshalled value
                    if (f[name][1] | 0x40) != (int(rj[1][name][1]) | 0x40):
                        return False
                    continue
                if not _ref_json_eq(f[name], rj[1][name]):
                    return False
        return True
    return False


def versions_for(tier):
    if tier == "quick":
        return [(2, 4), (2, 7), (3, 3), (3, 4), (3, 8), (3, 12)]
    return sorted(MAGIC)


def generate(tier, seed):
    vs = versions_for(tier)
    _VAL[0] = validate_model(seed, sorted(REAL))
    obs = []
    for v in vs:
        for name, shape in shapes_for(v, tier):
            if tier == "quick" and v in ((2, 4), (3, 4)) and not (
                    name.startswith(("tfloat", "tcomplex", "int32", "interned", "share-(", "bytes1", "uni1"))):
                continue
            obs.append(make_ob(v, name, shape, tier))
    # The symbolic long obligations run with LongTypeForPython3 stubbed out (constructing an int subclass realises the
    # value), so the *kind* of a Python-2 long is not seen there: the replay functions of those obligations (real
    # wrapper class, real 2.7 marshal as the reference) are run on the corner inputs of each shape as a direct obligation.
    for v in vs:
        if v < (3, 0):
            subset = [o for o in obs if o.id.startswith("C10.%d%d.long" % v) or o.id.startswith("C10.%d%d.share-long" % v)]
            if subset:
                obs.append(corner_ob(v, subset))
    return obs


def corner_ob(v, subset):
    def corners(o):
        lo = dict((n, r[0]) for n, r in o.params)
        hi = dict((n, r[1]) for n, r in o.params)
        one = dict((n, min(r[1], r[0] + 1)) for n, r in o.params)
        return [lo, hi, one]

    def q():
        n = 0
        for o in subset:
            for kw in corners(o):
                if o.pre is not None and not o.pre(**kw):
                    continue
                n += 1
                d = o.replay(**kw) or kind_of(o, kw)
                if d:
                    return "refuted", ("%s: %s" % (o.id, d))[:300], {"obligation": o.id, "kw": kw}, 0, 0.0
        return "confirmed", "%d corner inputs" % n, None, 0, 0.0

    def kind_of(o, kw):
        """every int among the constants of a long shape was an 'l' record of a Python-2 file: it must come back as xdis's
        long wrapper (what CPython 2 loads as `long`), whatever its sign"""
        import xdis.unmarshal as U
        saved = U.long
        U.long = lambda n: U.LongTypeForPython3(n)      # the definition in xdis/unmarshal.py (a worker that ran symbolic long obligations has the stub installed)
        try:
            items, co, rd = o.run_concrete(kw)
        finally:
            U.long = saved

        def walk(x):
            if isinstance(x, (tuple, list)):
                for y in x:
                    r = walk(y)
                    if r:
                        return r
            elif isinstance(x, int) and not isinstance(x, bool) and type(x).__name__ != "LongTypeForPython3":
                return "long constant %r of the Python-2 file %r is loaded as a plain %s, CPython 2 loads a long" % (x, bytes(items), type(x).__name__)
            return None
        return walk(co.co_consts)

    def replay(obligation, kw):
        o = next((x for x in subset if x.id == obligation), None)
        return (o.replay(**kw) or kind_of(o, kw)) if o is not None else None

    return Ob(id="C10.%d%d.long-kind-corners" % v, prop="C10", params=[], body=None, direct=q, replay=replay, funcs=FUNCS,
              region="%d%d.long" % v, skeleton="Python %d.%d long constants: the real wrapper class on the corner inputs of every long shape" % v,
              bound="3 corner inputs per shape (concrete)", timeout=120,
              oracle="R-real: marshal.loads of CPython 2.7 (kind 'long' vs 'int')" if v in REAL else "reference model")
