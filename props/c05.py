"""C05 - line-number mapping equals CPython's for every line-table format."""
import random

from engine import oracles
from engine.runner import Ob
from props.common import (LenOnly, SymCode, install_iter_unpack_model, make_portable, mkbytes, no_text,
                          opc_tables, tshort)
from refmodels import lines310 as M310
from refmodels import locations311 as L311
from props import c17

LEVEL = "model_checking"
EXPLANATION = (
    "Bounded symbolic model checking of the real line-table decoders. lnotab (<= 3.9): n (offset-increment, "
    "line-delta) byte pairs, first line and code length are symbolic; xdis.cross_dis.findlinestarts on a "
    "portable code object of the right class is compared with CPython's own dis.findlinestarts source "
    "(2.7 for unsigned tables, 3.6-3.9 for signed ones) run on the same symbolic object. 3.10: Code310.co_lines "
    "and findlinestarts vs a model of lnotab_notes.txt validated against the real 3.10; 3.11+: findlinestarts "
    "through Code311.co_lines vs the locations.md model (validated against real 3.11-3.13). offset2line vs a "
    "linear-scan specification on symbolic sorted pair lists; starts_line plumbing through the real Bytecode.")
BOUNDS = {
    "quick": "lnotab: 0..3 pairs, all bytes symbolic, first line 1..10^6, code length 0..70000; 3.10: 0..3 pairs; "
             "3.11+: 1-2 entries over 8 forms; offset2line: 0..4 pairs + query offset; starts_line: 3 instructions",
    "thorough": "lnotab: 0..5 pairs; 3.10: 0..5 pairs; 3.11+: up to 3 entries; offset2line: 0..6 pairs",
}
OUTSIDE = [
    "tables longer than the bound (decoders are single pass; state = running offset/line)",
    "tier B for 3.6/3.7 (table running past the end of the code): those dis versions do not bounds-check",
    "line numbers < 1 / trailing empty 3.10 ranges (CPython's C iterators misbehave there; not well-formed)",
    "versions <= 3.5 other than 2.7 have no interpreter here: the 2.7 dis source is the format-family reference",
]
ASSUMPTIONS = [
    "CrossHair/z3 soundness; bit-operation rewrite rules of engine/chplug.py",
    "struct.iter_unpack('=Bb') inside Code310.co_lines replaced by a pure-Python model",
    "R-src dis.findlinestarts of CPython 2.7/3.6/3.7/3.8/3.9; R-models lines310/locations311 validated on real "
    "interpreters at run time",
]
FUNCS = ["xdis.cross_dis.findlinestarts", "xdis.cross_dis.findlinestarts_unsigned", "xdis.opcodes.base.init_opdata (findlinestarts binding)", "xdis.codetype.code310.Code310.co_lines",
         "xdis.codetype.code311.Code311.co_lines", "xdis.codetype.code311.parse_linetable",
         "xdis.bytecode.offset2line", "xdis.bytecode.Bytecode.__init__", "xdis.bytecode.Bytecode.__iter__",
         "xdis.bytecode.get_logical_instruction_at_offset (starts_line)"]

# (portable version, oracle, signed)
LNOTAB_TARGETS = [((2, 7), "27", False), ((3, 3), "27", False), ((3, 5), "27", False), ((1, 5), "27", False),
                  ((3, 6), (3, 6), True), ((3, 7), (3, 7), True), ((3, 8), (3, 8), True), ((3, 9), (3, 9), True)]


def _pairs_eq(a, b):
    if len(a) != len(b):
        return False
    for (x0, x1), (y0, y1) in zip(a, b):
        if not (x0 == y0 and x1 == y1):
            return False
    return True


def lnotab_ob(vt, oracle, signed, n, region_kind, tier):
    """region_kind: 'A' deltas in the range both signednesses agree on / table inside code,
    'U' (unsigned formats) some delta >= 128, 'B' table may run past the end of the code"""
    params = [("fl", (1, 1000000)), ("clen", (0, 70000))]
    for i in range(n):
        params += [("i%d" % i, (0, 255)), ("d%d" % i, (0, 255))]

    def pre(**kw):
        tot = 0
        big = False
        line = kw["fl"]
        for i in range(n):
            tot = tot + kw["i%d" % i]
            d = kw["d%d" % i]
            if d >= 128:
                big = True
            line = line + (d - 256 if (signed and d >= 128) else d)
            if not (line >= 1):
                return False
        if region_kind == "B":
            return True
        if n and not (tot < kw["clen"]):
            return False
        if not signed:
            return big if region_kind == "U" else (not big)
        return True

    def build(kw, tracing=True):
        tbl = []
        for i in range(n):
            tbl += [kw["i%d" % i], kw["d%d" % i]]
        return tbl

    def run(kw):
        import xdis.cross_dis as X
        tbl = build(kw)
        lnotab = mkbytes(tbl)
        code = make_portable(vt, co_lnotab=lnotab, co_firstlineno=kw["fl"], co_code=b"")
        code.co_code = LenOnly(kw["clen"])
        # through the opcode table of the bytecode's version: the only path that knows the signedness of the format
        opc = opc_tables()["opcode_%d%d" % vt]
        got = list(opc.findlinestarts(code))
        ref_code = SymCode(co_lnotab=lnotab, co_firstlineno=kw["fl"], co_code=LenOnly(kw["clen"]))
        if oracle == "27":
            ref = list(oracles.load_dis27()["findlinestarts"](ref_code))
        else:
            ref = list(oracles.load_dis(oracle).findlinestarts(ref_code))
        return got, ref

    def body(**kw):
        got, ref = run(kw)
        assert _pairs_eq(got, ref), "findlinestarts: xdis %r, CPython %r" % (got, ref)

    region = None
    if region_kind == "U":
        region = "lnotab-unsigned-delta-ge-128"
    elif region_kind == "B" and oracle in ((3, 8), (3, 9)):
        region = "lnotab-past-end-of-code"
    return Ob(id="C05.lnotab.%d%d.n%d.%s" % (vt[0], vt[1], n, region_kind), prop="C05", params=params, body=body,
              pre=pre, funcs=FUNCS, region=region,
              skeleton="lnotab of %d pairs, portable class for %d.%d, region %s" % (n, vt[0], vt[1], region_kind),
              bound="all table bytes symbolic; first line 1..10^6; code length 0..70000",
              timeout=90 if tier == "quick" else 300,
              oracle="R-src dis.findlinestarts of CPython %s" % (oracle if oracle == "27" else "%d.%d" % oracle))


def t310_ob(n, which, tier):
    params = [("fl", (1, 1000000))]
    for i in range(n):
        params += [("i%d" % i, (0, 255)), ("d%d" % i, (0, 255))]

    def tbl_of(kw):
        t = []
        for i in range(n):
            t += [kw["i%d" % i], kw["d%d" % i]]
        return t

    def pre(**kw):
        t = tbl_of(kw)
        if n and not (t[2 * n - 2] != 0):
            return False
        for _s, _e, l in M310.ranges(t, kw["fl"]):
            if l is not None and not (l >= 1):
                return False
        return True

    def body(**kw):
        import xdis.cross_dis as X
        t = tbl_of(kw)
        code = make_portable((3, 10), co_lnotab=mkbytes(t), co_firstlineno=kw["fl"], co_code=b"")
        if which == "co_lines":
            got = M310.merge([tuple(x) for x in code.co_lines()])
            ref = M310.lines(t, kw["fl"])
            assert c17._eq_tuples(got, ref), "co_lines: xdis %r, reference %r" % (got, ref)
        else:
            got = list(X.findlinestarts(code))
            ref = M310.linestarts(t, kw["fl"])
            assert _pairs_eq(got, ref), "findlinestarts: xdis %r, reference %r" % (got, ref)

    def replay(**kw):
        import xdis.cross_dis as X
        t = tbl_of(kw)
        rl, rs = M310.real([(t, kw["fl"])])[0]
        code = make_portable((3, 10), co_lnotab=bytes(t), co_firstlineno=kw["fl"], co_code=b"")
        if which == "co_lines":
            got = M310.merge([tuple(x) for x in code.co_lines()])
            return None if got == M310.merge(rl) else "Code310.co_lines %r/%d: xdis %r, CPython 3.10 %r" % (bytes(t), kw["fl"], got, rl)
        got = list(X.findlinestarts(code))
        return None if got == rs else "findlinestarts(Code310 %r/%d): xdis %r, CPython 3.10 %r" % (bytes(t), kw["fl"], got, rs)

    return Ob(id="C05.t310.%s.n%d" % (which, n), prop="C05", params=params, body=body, pre=pre, replay=replay,
              funcs=FUNCS, skeleton="3.10 line table of %d pairs, %s" % (n, which),
              bound="all table bytes symbolic; first line 1..10^6", timeout=90 if tier == "quick" else 300,
              oracle="R-model lines310 (validated vs real 3.10); replay on real 3.10",
              setup=install_iter_unpack_model)


def t311_ob(forms, tier):
    params = [("fl", (1, 1000000))]
    for i, f in enumerate(forms):
        params += c17.form_params("e%d" % i, f)

    def table(kw):
        items = []
        for i, f in enumerate(forms):
            items += c17.form_bytes("e%d" % i, f, kw)
        return items

    def pre(**kw):
        for e in L311.entries(table(kw), kw["fl"]):
            if e[1] is not None and not (e[1] >= 1):
                return False
        return True

    def ref_starts(items, fl):
        out = []
        last = None
        for s, _e, l in L311.lines(items, fl):
            if l is not None and (last is None or l != last):
                last = l
                out.append((s, l))
        return out

    def body(**kw):
        import xdis.cross_dis as X
        items = table(kw)
        code = make_portable((3, 12), co_lnotab=mkbytes(items), co_firstlineno=kw["fl"], co_code=b"")
        got = list(X.findlinestarts(code))
        ref = ref_starts(items, kw["fl"])
        assert _pairs_eq(got, ref), "findlinestarts: xdis %r, reference %r" % (got, ref)

    def replay(**kw):
        import xdis.cross_dis as X
        items = table(kw)
        code = make_portable((3, 12), co_lnotab=bytes(items), co_firstlineno=kw["fl"], co_code=b"")
        got = list(X.findlinestarts(code))
        _rp, rl = L311.real((3, 12), [(items, kw["fl"])])[0]
        ref = []
        last = None
        for s, _e, l in rl:
            if l is not None and l != last:
                last = l
                ref.append((s, l))
        return None if got == ref else "findlinestarts(Code311 %r/%d): xdis %r, CPython 3.12 %r" % (bytes(items), kw["fl"], got, ref)

    return Ob(id="C05.t311.%s" % "-".join(forms), prop="C05", params=params, body=body, pre=pre, replay=replay,
              funcs=FUNCS, skeleton="3.11+ location table forms=%s via findlinestarts" % "+".join(forms),
              bound="all payload bits symbolic; first line 1..10^6", timeout=60 if tier == "quick" else 300,
              oracle="R-model locations311 (validated); replay on real 3.12")


def o2l_ob(n, tier):
    params = [("q", (-5, 100000))]
    for i in range(n):
        params += [("o%d" % i, (0, 100000)), ("l%d" % i, (0, 1000000))]

    def pre(**kw):
        for i in range(1, n):
            if not (kw["o%d" % (i - 1)] < kw["o%d" % i]):
                return False
        return True

    def body(**kw):
        import xdis.bytecode as B
        ls = [(kw["o%d" % i], kw["l%d" % i]) for i in range(n)]
        got = B.offset2line(kw["q"], ls)
        want = 0
        for o, l in ls:
            if o <= kw["q"]:
                want = l
        assert got == want, "offset2line(%r, %r) = %r, want %r" % (kw["q"], ls, got, want)

    return Ob(id="C05.offset2line.n%d" % n, prop="C05", params=params, body=body, pre=pre, funcs=FUNCS,
              skeleton="offset2line over %d sorted pairs" % n, bound="offsets 0..10^5 strictly increasing, lines 0..10^6, query -5..10^5",
              timeout=60 if tier == "quick" else 200, oracle="linear-scan specification")


def starts_ob(tname, opc, tier):
    """starts_line of the real instruction stream == oracle line starts (with first_line shift)"""
    vt = tuple(opc.version_tuple[:2])
    word = vt >= (3, 6)
    params = [("fl", (1, 100000)), ("i0", (0, 255)), ("d0", (0, 127)), ("shift", (0, 50))]
    from props.c02 import _pick
    nop = _pick(opc, ["NOP", "POP_TOP"])

    def body(**kw):
        import xdis.bytecode as B
        n_inst = 6
        items = []
        for _ in range(n_inst):
            items += [nop, 0] if word else [nop]
        code_bytes = bytes(items)
        lnotab = mkbytes([kw["i0"], kw["d0"]])
        code = make_portable(vt, co_lnotab=lnotab, co_firstlineno=kw["fl"], co_code=code_bytes)
        with no_text(opc):
            bc = B.Bytecode(code, opc, first_line=kw["fl"] + kw["shift"], dup_lines=False)
            insts = list(bc)
        # reference: CPython rule for one lnotab pair (both signednesses agree for delta < 128)
        starts = []
        if kw["i0"] == 0:
            starts = [(0, kw["fl"] + kw["d0"])]
        else:
            starts = [(0, kw["fl"])]
            if kw["d0"] != 0 and (vt < (3, 8) or kw["i0"] < len(code_bytes)):
                starts.append((kw["i0"], kw["fl"] + kw["d0"]))
        for ins in insts:
            want = None
            for o, l in starts:
                if ins.offset == o:
                    want = l + kw["shift"]
            if want is None:
                assert ins.starts_line is None, "starts_line at %d: xdis %r, want None" % (ins.offset, ins.starts_line)
            else:
                assert ins.starts_line is not None and ins.starts_line == want, \
                    "starts_line at %d: xdis %r, want %r" % (ins.offset, ins.starts_line, want)

    return Ob(id="C05.starts_line.%s" % tshort(tname), prop="C05", params=params, body=body, funcs=FUNCS,
              skeleton="Bytecode(code, %s, first_line=fl+shift) over 6 instructions, 1 lnotab pair" % tname,
              bound="increment 0..255, delta 0..127, first line 1..10^5, shift 0..50", timeout=90,
              oracle="CPython lnotab rule + first_line shift")


_VAL = [0]


def evidence_extra():
    return {"oracle_validations": _VAL[0]}


def generate(tier, seed):
    rnd = random.Random(seed)
    cases = []
    for _ in range(300):
        n = rnd.randint(0, 5)
        t = []
        for _i in range(n):
            t += [rnd.choice([0, 2, 4, 254, rnd.randrange(0, 256, 2)]), rnd.choice([0, 1, 127, 128, 129, 255, rnd.randrange(256)])]
        cases.append((t, rnd.choice([1, 500, 100000])))
    _VAL[0] = M310.validate(cases)
    c17._validate(seed)
    _VAL[0] += c17._VALIDATIONS[0]
    oracles.load_dis27()
    for v in ((3, 6), (3, 7), (3, 8), (3, 9)):
        oracles.load_dis(v)
    obs = []
    nmax = 3 if tier == "quick" else 5
    for vt, oracle, signed in LNOTAB_TARGETS:
        if tier == "quick" and vt in ((3, 3), (1, 5), (3, 7)):
            continue
        for n in range(0, nmax + 1):
            obs.append(lnotab_ob(vt, oracle, signed, n, "A", tier))
            if not signed and n >= 1:
                obs.append(lnotab_ob(vt, oracle, signed, n, "U", tier))
            if signed and oracle in ((3, 8), (3, 9)) and 1 <= n <= (2 if tier == "quick" else 3):
                obs.append(lnotab_ob(vt, oracle, signed, n, "B", tier))
    for n in range(0, nmax + 1):
        obs.append(t310_ob(n, "co_lines", tier))
        obs.append(t310_ob(n, "findlinestarts", tier))
    names = list(c17.FORMS)
    seqs = [[a] for a in names] + [[a, b] for a in c17.FORMS8 for b in c17.FORMS8 if not (a == "s9" or b == "s9")]
    if tier == "thorough":
        seqs += [[a, b, c] for a in c17.FORMS8[:6] for b in c17.FORMS8[:6] for c in c17.FORMS8[:6]]
    for fs in seqs:
        if tier == "thorough" and len(fs) == 3 and sum(1 for f in fs if f.startswith("l") or f == "n3") >= 2:
            continue  # measured: no verdict within the time limit (27 such in one pass)
        if tier == "quick" and fs == ["n3"]:
            obs.append(t311_ob(fs, "thorough"))     # one 3-byte varint (line deltas beyond +-2047): ~40 s, with the longer time-out
            continue
        if tier == "quick" and (any(f in ("n3", "l3111") for f in fs) or
                                all(f.startswith("l") for f in fs) and len(fs) > 1):
            continue  # need > 60 s of solver time: thorough tier only
        obs.append(t311_ob(fs, tier))
    for n in range(0, 5 if tier == "quick" else 7):
        obs.append(o2l_ob(n, tier))
    tabs = opc_tables()
    for tname in (["opcode_27", "opcode_36", "opcode_39"] if tier == "quick" else
                  ["opcode_15", "opcode_27", "opcode_33", "opcode_36", "opcode_37", "opcode_38", "opcode_39"]):
        obs.append(starts_ob(tname, tabs[tname], tier))
    from props.corpus import corpus_ob
    obs.append(corpus_ob("C05", "lines", FUNCS))
    return obs
