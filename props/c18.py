"""C18 - each call's result is independent of what the process did before."""
import io
import os
import sys

from engine.runner import Ob
from props.common import mkbytes

LEVEL = "model_checking"
EXPLANATION = (
    "Histories are not enumerated. Two kinds of one-step obligations, each executed in a freshly forked image of the pristine "
    "parent process (so nothing an earlier obligation did can help or hurt): (A) frame condition - for every public operation "
    "(load of files of final / interim / unknown / host magic, get_opcode, get_opcode_module, make_std_api, disassembly in classic "
    "and extended format, disco, marsh dumps/loads, load_code with its default arguments) run with symbolic arguments under "
    "CrossHair, a deep snapshot of every shared table (all opcode-table modules, magics tables, op_imports, base.fields2copy...) "
    "taken before equals the snapshot taken after; (B) commutation - for every ordered pair (Q, P) of those operations the probe P "
    "is run, then Q, then P again with the same symbolic arguments, and both probe results (values or exception types) must be "
    "equal; P;P covers 'repeating a call gives the same result'; (B') the probe result in one fresh process equals the result of "
    "Q;P in another fresh process, on concrete arguments - the first probe of P;Q;P can itself leave state behind that masks Q's.  A holds for all ops and B for all pairs => by induction over the "
    "length of the history, no finite sequence of these operations changes the result of a later probe.")
BOUNDS = {"quick": "11 operations (13 in B with magic variants); symbolic arguments: 4 payload bytes, operand 0..3, small ints",
          "thorough": "same operations with wider symbolic ranges and all formats"}
OUTSIDE = ["interpreter-level state (linecache, re caches), OS state", "remap_opcodes (excluded by the statement)",
           "operations on large real files (the state they could touch is the same tables)"]
ASSUMPTIONS = ["the operation list covers the public entry points named in the statement",
               "import-time table construction is deterministic (checked by C09 against the real interpreters)", "CrossHair/z3 soundness"]
FUNCS = ["xdis.load.load_module_from_file_object", "xdis.unmarshal.load_code (default arguments)", "xdis.disasm.get_opcode",
         "xdis.op_imports.get_opcode_module", "xdis.std.make_std_api", "xdis.bytecode.Bytecode.dis", "xdis.disasm.disco",
         "xdis.marsh.dumps", "xdis.marsh.loads", "module-level tables of xdis.opcodes.*, xdis.magics, xdis.op_imports"]


def _canon(v, depth=0):
    if depth > 4:
        return "..."
    if isinstance(v, dict):
        return "{" + ",".join(sorted("%s:%s" % (_canon(k, depth + 1), _canon(x, depth + 1)) for k, x in v.items())) + "}"
    if isinstance(v, (set, frozenset)):
        return "S(" + ",".join(sorted(_canon(x, depth + 1) for x in v)) + ")"
    if isinstance(v, (list, tuple)):
        return ("L(" if isinstance(v, list) else "T(") + ",".join(_canon(x, depth + 1) for x in v) + ")"
    if isinstance(v, (int, str, bytes, float, bool)) or v is None:
        return repr(v)
    if isinstance(v, type(sys)):
        return "<module %s>" % v.__name__
    if callable(v):
        return "<callable %s>" % getattr(v, "__qualname__", getattr(v, "__name__", "?"))
    return "<%s>" % type(v).__name__


def _untraced(fn):
    """run fn without CrossHair tracing (the shared tables are concrete: tracing every step of canonicalising ~50
    modules costs minutes and adds nothing)"""
    def wrapper(*a, **k):
        try:
            from crosshair.tracers import NoTracing, is_tracing
        except ImportError:
            return fn(*a, **k)
        if not is_tracing():
            return fn(*a, **k)
        with NoTracing():
            return fn(*a, **k)
    return wrapper


@_untraced
def snapshot():
    """deep canonical form of the shared tables later calls read"""
    import xdis.magics
    import xdis.op_imports
    import xdis.opcodes.base
    out = []
    for name in sorted(sys.modules):
        if name.startswith("xdis.opcodes.") or name in ("xdis.magics", "xdis.op_imports", "xdis.opcodes.base", "xdis.std",
                                                       "xdis.unmarshal", "xdis.load"):
            mod = sys.modules[name]
            if mod is None:
                continue
            for k in sorted(vars(mod)):
                if k.startswith("__"):
                    continue
                v = vars(mod)[k]
                if isinstance(v, (dict, list, set, frozenset, tuple, int, str)):
                    # repr() is stable within one process for an unmodified container, and fast (C code)
                    out.append("%s.%s=%s" % (name, k, repr(v)))
    return out


def _summ(v):
    from xdis.codetype.base import CodeBase
    if isinstance(v, CodeBase):
        return ("code", v.co_name, _canon(getattr(v, "co_consts", None)), bytes(v.co_code))
    if isinstance(v, tuple):
        return tuple(_summ(x) for x in v)
    if isinstance(v, (int, str, bytes, float, bool)) or v is None:
        return v
    return _canon(v)


@_untraced
def table_digest(opc):
    return (opc.__name__, _canon(opc.opmap), _canon(list(opc.opname)), opc.HAVE_ARGUMENT, _canon(opc.hasjrel), _canon(opc.hasjabs),
            _canon(opc.hasconst), _canon(opc.hasname), _canon(list(opc.oppop)), _canon(list(opc.oppush)))


def small_code(vt, x):
    from props.common import make_portable, opc_tables
    opc = opc_tables()["opcode_%d%d" % vt]
    word = vt >= (3, 6)
    lc = opc.opmap["LOAD_CONST"]
    rv = opc.opmap["RETURN_VALUE"]
    items = ([lc, x, rv, 0] if word else [lc, x, 0, rv])
    kw = dict(co_code=bytes(items) if not hasattr(x, "var") else mkbytes(items), co_consts=(1, 2, 3, 4), co_names=(), co_varnames=(),
              co_name="<module>", co_filename="s.py", co_stacksize=1)
    if vt < (3, 0):
        kw["co_lnotab"] = ""
    return make_portable(vt, **kw), opc


# ---- operations: name -> (param specs, function(**kw) -> comparable result) -------------------------------------------

def op_load(magic, get_code=True):
    import xdis.magics as M0
    host = magic == M0.PYTHON_MAGIC_INT

    def f(p0=1, p1=2, p2=3, p3=4):
        import xdis.load as LD
        import xdis.magics as M
        from props.common import SymReader
        hdr = 12 if magic in (3413, 3531, 3495) else (8 if magic in (3371, 3379, 3361) else 4)
        data = list(M.int2magic(magic)) + [0] * hdr + [ord("i"), p0, p1, p2, p3]
        try:
            # the payload stays symbolic (list-backed carrier); the host-magic fast path is C marshal.loads: concrete there
            fp = io.BytesIO(bytes(data)) if host else SymReader(mkbytes(data))
            r = LD.load_module_from_file_object(fp, filename="h.pyc", code_objects={})
            return ("ok",) + tuple(_summ(x) for x in r)
        except ImportError:
            return ("ImportError",)
    if host:
        return [], f
    return [("p0", (0, 255)), ("p1", (0, 255)), ("p2", (0, 255)), ("p3", (0, 127))], f


def op_get_opcode(vt, pypy):
    def f():
        from xdis.disasm import get_opcode
        try:
            return table_digest(get_opcode(vt, pypy))
        except TypeError:
            return ("TypeError",)
    return [], f


def op_get_opcode_module(vt):
    def f():
        from xdis.op_imports import get_opcode_module
        return table_digest(get_opcode_module(vt + (0, "final", 0), None))
    return [], f


def op_std_api(vt):
    def f(x):
        from xdis.std import make_std_api
        api = make_std_api(vt)
        code, _opc = small_code(vt, x)
        return (_canon(api.opmap), api.HAVE_ARGUMENT, api.EXTENDED_ARG, _canon(api.hasconst), _canon(list(api.findlabels(code.co_code))),
                _canon(list(api.findlinestarts(code))))
    return [("x", (0, 3))], f


def op_dis(vt, fmt):
    def f(x):
        from xdis.bytecode import Bytecode
        code, opc = small_code(vt, x)
        return Bytecode(code, opc).dis(asm_format=fmt)
    return [("x", (0, 3))], f


def op_disco(vt, fmt):
    def f(x):
        from xdis.disasm import disco
        code, opc = small_code(vt, x)
        out = io.StringIO()
        disco(vt, code, 5, out=out, magic_int=3413, source_size=3, asm_format=fmt)
        return out.getvalue()
    return [("x", (0, 3))], f


def jump_code(vt, x):
    """a loop-shaped code object of version vt: forward jump (operand x), FOR_ITER, conditional jump, backward jump, each followed
    by the inline caches the real interpreter defines"""
    from props.common import make_portable, opc_tables, cache_entries
    opc = opc_tables()["opcode_%d%d" % vt]
    om = opc.opmap
    word = vt >= (3, 6)
    NOP = om["NOP"] if "NOP" in om else om["POP_TOP"]
    items = []

    def emit(name, arg):
        op = om[name]
        items.extend([op, arg] if word else ([op, arg, 0] if op >= opc.HAVE_ARGUMENT else [op]))
        for _ in range(cache_entries(opc, op)):
            items.extend([om["CACHE"], 0])
    emit("JUMP_FORWARD", x)
    for _ in range(4):
        emit("NOP" if "NOP" in om else "POP_TOP", 0)
    emit("FOR_ITER", 2)
    emit("NOP" if "NOP" in om else "POP_TOP", 0)
    for nm in ("POP_JUMP_IF_TRUE", "POP_JUMP_FORWARD_IF_TRUE", "JUMP_IF_TRUE"):
        if nm in om:
            emit(nm, 1)
            break
    emit("NOP" if "NOP" in om else "POP_TOP", 0)
    if "JUMP_BACKWARD" in om:
        emit("JUMP_BACKWARD", 3)
    else:
        emit("JUMP_ABSOLUTE", 2)
    emit("RETURN_VALUE", 0)
    sym = hasattr(x, "var")
    kw = dict(co_code=mkbytes(items) if sym else bytes(items), co_consts=(1, 2, 3, 4), co_names=(), co_varnames=(),
              co_name="<module>", co_filename="s.py", co_stacksize=1)
    if vt < (3, 0):
        kw["co_lnotab"] = ""
    return make_portable(vt, **kw), opc


def op_jumps(vt):
    """decode the jumps of version-vt code: labels, targets, jump-target flags (the per-version jump/cache tables are read here)"""
    def f(x):
        from xdis.bytecode import Bytecode
        code, opc = jump_code(vt, x)
        ins = [(i.offset, i.opname, i.arg, i.argval if isinstance(i.argval, int) else None, bool(i.is_jump_target)) for i in Bytecode(code, opc)]
        return (_canon(list(opc.findlabels(code.co_code, opc))), _canon(ins))
    return [("x", (0, 3))], f


def op_ext(vt):
    """extended-format listing of version-vt code that uses operator, call and (where they exist) method-call opcodes: the
    per-version operator/call classifications are read here"""
    def f(x):
        from xdis.bytecode import Bytecode
        from props.common import make_portable, opc_tables, cache_entries
        opc = opc_tables()["opcode_%d%d" % vt]
        om = opc.opmap
        word = vt >= (3, 6)
        items = []

        def emit(name, arg=0):
            if name not in om:
                return
            op = om[name]
            items.extend([op, arg] if word else ([op, arg, 0] if op >= opc.HAVE_ARGUMENT else [op]))
            for _ in range(cache_entries(opc, op)):
                items.extend([om["CACHE"], 0])
        emit("LOAD_CONST", x)
        emit("LOAD_CONST", 1)
        emit("BINARY_ADD")
        emit("BINARY_OP", 0)
        emit("LOAD_CONST", 2)
        emit("COMPARE_OP", 2 if vt < (3, 12) else 40)
        emit("LOAD_NAME", 0)
        emit("LOAD_METHOD", 1)
        emit("LOAD_CONST", 0)
        emit("CALL_METHOD", 1)
        emit("LOAD_NAME", 0)
        emit("LOAD_CONST", 0)
        emit("CALL_FUNCTION", 1)
        emit("UNARY_NEGATIVE")
        emit("RETURN_VALUE")
        kw = dict(co_code=bytes(items), co_consts=(1, 2, 3, 4), co_names=("n0", "n1"), co_varnames=(), co_name="<module>",
                  co_filename="s.py", co_stacksize=4)
        if vt < (3, 0):
            kw["co_lnotab"] = ""
        code = make_portable(vt, **kw)
        return Bytecode(code, opc).dis(asm_format="extended")
    return [("x", (0, 3))], f


def op_marsh():
    def f(v):
        import xdis.marsh as MS
        b = MS.dumps((v, "a", None))
        return (bytes(b), _canon(MS.loads(bytes(b))))
    return [("v", (-1000, 1000))], f


def op_marsh_py2(names):
    """xdis.marsh.loads of Python-2 style data with interned strings ('t') and string back-references ('R')"""
    def f(ch):
        import xdis.marsh as MS
        c = ch
        data = [ord("(")] + [len(names) + 2, 0, 0, 0]
        for nm in names:
            b = nm.encode()
            data += [ord("t"), len(b), 0, 0, 0] + list(b)
        data += [ord("R"), 0, 0, 0, 0]
        data += [ord("R"), len(names) - 1, 0, 0, 0]
        data[10] = c   # first character of the first interned string: symbolic
        return _canon(MS.loads(mkbytes(data)))
    return [("ch", (0x61, 0x62))], f


def op_load_code_default():
    def f(p0):
        import xdis.unmarshal as U
        # a code object of 3.8 layout, read with load_code's default arguments (shared default dict)
        from props import mshapes as S
        b = S.build(("c", False, (3, 8), {"co_consts": ("(", False, [("iconst", False, 5)]), "co_name": S.text((3, 8), b"dflt")}))
        data = bytes(S.realise(b, {}))
        data = data[:-1] + bytes([int(p0) % 1 + data[-1]])
        co = U.load_code(io.BytesIO(data), 3413)
        return _summ(co)
    return [("p0", (0, 3))], f


def operations():
    ops = {
        "load-final38": op_load(3413), "load-final27": op_load(62211), "load-interim36": op_load(3371), "load-interim35": op_load(3361),
        "load-unknown": op_load(9999), "load-host": op_load(3531),
        "get_opcode-39": op_get_opcode((3, 9), False), "get_opcode-27pypy": op_get_opcode((2, 7), True),
        "get_opcode_module-313": op_get_opcode_module((3, 13)),
        "std_api-27": op_std_api((2, 7)), "std_api-311": op_std_api((3, 11)),
        "dis-39-classic": op_dis((3, 9), "classic"), "dis-312-extended": op_dis((3, 12), "extended"),
        "disco-27-classic": op_disco((2, 7), "classic"), "disco-38-xasm": op_disco((3, 8), "xasm"),
        "ext-27": op_ext((2, 7)), "ext-36": op_ext((3, 6)), "ext-38": op_ext((3, 8)), "ext-310": op_ext((3, 10)),
        "jumps-27": op_jumps((2, 7)), "jumps-38": op_jumps((3, 8)), "jumps-310": op_jumps((3, 10)), "jumps-311": op_jumps((3, 11)),
        "jumps-312": op_jumps((3, 12)), "jumps-313": op_jumps((3, 13)),
        "marsh": op_marsh(), "load_code-default-args": op_load_code_default(),
        "marsh-py2-A": op_marsh_py2(["os", "zeta", "alpha"]), "marsh-py2-B": op_marsh_py2(["sys", "beta"]),
    }
    return ops


def quiet(fn, kw):
    devnull = open(os.devnull, "w")
    saved = sys.stdout, sys.stderr
    sys.stdout = sys.stderr = devnull
    try:
        return fn(**kw)
    finally:
        sys.stdout, sys.stderr = saved
        devnull.close()


def frame_ob(name, spec, tier):
    params, fn = spec

    def body(**kw):
        s0 = snapshot()
        quiet(fn, kw)
        s1 = snapshot()
        if s0 != s1:
            diff = [a for a, b in zip(s0, s1) if a != b][:2] if len(s0) == len(s1) else ["number of table entries %d -> %d" % (len(s0), len(s1))]
            raise AssertionError("tables-altered by %s: %s" % (name, [d[:160] for d in diff]))

    return Ob(id="C18.frame.%s" % name, prop="C18", params=params, body=body, funcs=FUNCS, fresh=True, opaque_repr=False,
              region="frame.%s" % name, skeleton="snapshot of shared tables before/after %s" % name,
              bound="symbolic arguments %r" % ([p[0] for p in params],), timeout=60 if tier == "quick" else 200,
              oracle="frame condition on shared tables")


def pair_ob(qname, qspec, pname, pspec, tier):
    qparams, qfn = qspec
    pparams, pfn = pspec
    params = [("q_" + n, s) for n, s in qparams] + [("p_" + n, s) for n, s in pparams]

    def body(**kw):
        qkw = {n: kw["q_" + n] for n, _ in qparams}
        pkw = {n: kw["p_" + n] for n, _ in pparams}

        def probe():
            try:
                return ("value", quiet(pfn, pkw))
            except Exception as e:
                return ("raises", type(e).__name__)
        r0 = probe()
        try:
            quiet(qfn, qkw)
        except Exception:
            pass
        r1 = probe()
        assert r0 == r1, "history-dependent: %s gives %s first and %s after %s" % (pname, _short(r0), _short(r1), qname)

    return Ob(id="C18.pair.%s.then.%s" % (qname, pname), prop="C18", params=params, body=body, funcs=FUNCS, fresh=True,
              opaque_repr=False, region="pair.%s" % pname, skeleton="probe %s; %s; probe %s again" % (pname, qname, pname),
              bound="symbolic arguments %r" % ([p[0] for p in params],), timeout=60 if tier == "quick" else 200,
              oracle="equality of the two probe results")


def _in_child(fn):
    """run fn() in a forked child of this (pristine) process and return its picklable result"""
    import pickle
    r_fd, w_fd = os.pipe()
    pid = os.fork()
    if pid == 0:
        try:
            os.close(r_fd)
            try:
                res = ("value", fn())
            except Exception as e:
                res = ("raises", type(e).__name__)
            with os.fdopen(w_fd, "wb") as f:
                pickle.dump(res, f)
        finally:
            os._exit(0)
    os.close(w_fd)
    with os.fdopen(r_fd, "rb") as f:
        data = f.read()
    os.waitpid(pid, 0)
    return pickle.loads(data) if data else ("raises", "child-died")


def order_ob(qname, qspec, pname, pspec, tier):
    """result of P in a fresh process == result of P after Q in another fresh process (concrete mid-range arguments):
    complements the symbolic P;Q;P obligations, whose first probe may itself leave state behind"""
    qparams, qfn = qspec
    pparams, pfn = pspec

    def args(params, which):
        return {n: (lo if which == 0 else (lo + hi) // 2) for n, (lo, hi) in params}

    def run():
        bad = None
        n = 0
        for which in (0, 1):
            qkw, pkw = args(qparams, which), args(pparams, which)
            fresh = _in_child(lambda: quiet(pfn, pkw))

            def after():
                try:
                    quiet(qfn, qkw)
                except Exception:
                    pass
                return quiet(pfn, pkw)
            later = _in_child(after)
            n += 1
            if fresh != later and bad is None:
                bad = (which, fresh, later)
        return bad, n

    def q():
        bad, n = run()
        if bad:
            return "refuted", "history-dependent", {"which": bad[0]}, 0, 0.0
        return "confirmed", "%d argument choices" % n, None, 0, 0.0

    def replay(which):
        bad, n = run()
        if not bad:
            return None
        return "%s in a fresh process gives %s; after %s it gives %s" % (pname, _short(bad[1]), qname, _short(bad[2]))

    return Ob(id="C18.order.%s.then.%s" % (qname, pname), prop="C18", params=[], body=None, direct=q, replay=replay, funcs=FUNCS,
              region="order.%s" % pname, skeleton="fresh process: %s  vs  fresh process: %s; %s" % (pname, qname, pname),
              bound="two concrete argument choices", timeout=120, oracle="equality of the probe result in two fresh processes (concrete)")


def _short(r):
    s = repr(r)
    return s if len(s) < 140 else s[:140] + "..."


def generate(tier, seed):
    # import everything the operations use *now*, so that first-import side effects are part of the pristine image
    import xdis.std, xdis.disasm, xdis.marsh, xdis.bytecode, xdis.load, xdis.unmarshal, xdis.op_imports  # noqa: F401,E401
    import props.mshapes, props.common  # noqa: F401,E401
    props.common.opc_tables()
    ops = operations()
    obs = []
    for name, spec in ops.items():
        if name.startswith("marsh-py2"):
            continue   # reader-state operations: covered by the pair/order obligations (their frame obligation does not finish)
        obs.append(frame_ob(name, spec, tier))
    probes = ["marsh-py2-B", "load-final38", "load-interim36", "load-interim35", "load-unknown", "get_opcode-39", "std_api-311", "dis-39-classic",
              "dis-312-extended", "disco-27-classic", "marsh", "load_code-default-args", "get_opcode_module-313", "load-host",
              "jumps-38", "jumps-310", "jumps-312", "jumps-313", "ext-38", "ext-36", "ext-310"]
    prefixes = ["marsh-py2-A", "load-final38", "load-final27", "load-interim36", "load-unknown", "get_opcode-27pypy", "std_api-27", "dis-312-extended",
                "disco-38-xasm", "marsh", "load_code-default-args", "load-host", "jumps-27", "jumps-311", "jumps-313", "ext-27", "ext-36", "ext-38"]
    for p in probes:
        for q in dict.fromkeys(prefixes + [p]):
            obs.append(order_ob(q, ops[q], p, ops[p], tier))
    for p in probes:
        obs.append(pair_ob(p, ops[p], p, ops[p], tier))   # P;P;P
        for q in prefixes:
            if q != p:
                obs.append(pair_ob(q, ops[q], p, ops[p], tier))
    return obs
