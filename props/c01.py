"""C01 - unmarshalled code objects equal what the producing CPython itself loads."""
from engine.runner import Ob
from props import mshapes as S
from props import c10
from props.common import SymReader, mkbytes
from refmodels import marshal_ref as R

LEVEL = "model_checking"
EXPLANATION = (
    "Bounded symbolic model checking of the real code-object reader: for each file magic (which selects the "
    "1.0/1.3/1.5/2.0/2.3/3.0/3.8/3.11 field layout and the marshal format) a code-object skeleton is built with "
    "concrete type codes/lengths/FLAG_REF bits and symbolic content: every scalar header field over its full 16/32-bit "
    "range, first line, names, variable/free/cell names, filename, name, qualname, line table and exception table "
    "bytes, 3.11 localspluskinds, nested code objects and back-references to shared strings. "
    "xdis.unmarshal.load_code reads it through a position-tracking reader; every field must equal, kind and value, the "
    "field a reference transcription of marshal.c produces from the same bytes, and the payload must be consumed exactly. "
    "The reference is validated against the real marshal.loads of 2.7/3.6/3.8/3.10-3.13 at run time and every "
    "counterexample is replayed there.")
BOUNDS = {
    "quick": "one magic per layout class + the magics named in version gates; skeletons: scalars / names / nested+refs / "
             "3.11 localsplus / tables; strings of 1-2 symbolic bytes; nesting depth 1",
    "thorough": "every magic in xdis's table that load_module accepts; same skeletons + depth 2",
}
OUTSIDE = ["strings > 2 bytes, > 3 names per table (the >255 container case is in C10)",
           "Graal files (xdis deliberately returns a placeholder)",
           "1.0-2.6, 3.0-3.5, PyPy: no interpreter here; the reference model (same gates as marshal.c of the nearest "
           "installed version) is the only oracle",
           "interim 3.8 alpha magics 3400-3411 (layout not verifiable here)",
           "Python 2.0 (magic 50823): xdis's reader and its portable class disagree about co_freevars/co_cellvars and no "
           "2.0 interpreter or 2.0 corpus file is available to say which is right",
           "CO_NOFREE (0x40) which PyCode_New computes itself before 3.11; co_stacksize 0 (3.13 normalises to 1)"]
ASSUMPTIONS = c10.ASSUMPTIONS
FUNCS = c10.FUNCS + ["xdis.codetype.codeType2Portable", "xdis.codetype.code*.Code*.__init__"]

QUICK_MAGICS = {39170: (1, 0), 11913: (1, 3), 20121: (1, 5), 60202: (2, 1), 62011: (2, 3), 62061: (2, 4),
                62131: (2, 5), 62211: (2, 7), 3131: (3, 0), 3230: (3, 3), 3310: (3, 4), 3379: (3, 6), 3394: (3, 7),
                3413: (3, 8), 3425: (3, 9), 3439: (3, 10), 3495: (3, 11), 3531: (3, 12), 3571: (3, 13),
                62218: (2, 7), 112: (3, 5), 240: (3, 7), 336: (3, 9)}


def skeletons(v, tier):
    """[(name, fields dict, flag_on_code)]"""
    py3 = v >= (3, 0)
    refs = v >= (3, 4)
    tx = "u" if py3 else "s"
    out = []
    scal = {n: "sym" for n in ("co_argcount", "co_posonlyargcount", "co_kwonlyargcount", "co_nlocals", "co_flags",
                               "co_firstlineno")}
    scal["co_stacksize"] = "sym"
    out.append(("scalars", scal, False))
    # pairwise distinct concrete strings in every table (a swapped/misplaced field is visible); symbolic bytes only
    # where no C-level decode realises them one value at a time: co_code and one name character
    T = lambda b_: S.text(v, b_)
    names = {"co_names": ("(", False, [(tx, False, 1), T(b"nm2")]), "co_filename": T(b"file.py"), "co_name": T(b"fn"),
             "co_consts": ("(", False, [("i", False), ("N",), T(b"const")]), "co_code": ("s", False, 2, False)}
    if v >= (3, 11):
        names["co_qualname"] = T(b"Q.fn")
        names["co_linetable"] = ("str", "s", False, [0x80, 0x01])
        names["co_exceptiontable"] = ("str", "s", False, [0x82, 0x04, 0x06, 0x01])
        names["co_localsplusnames"] = ("(", False, [T(b"lv"), T(b"cv"), T(b"fv")])
        names["co_localspluskinds"] = ("str", "s", False, [0x20, 0x40, 0x80])
    else:
        if v >= (1, 3):
            names["co_varnames"] = ("(", False, [T(b"v1"), T(b"v2")])
        if v >= (2, 0):
            names["co_freevars"] = ("(", False, [T(b"fr")])
            names["co_cellvars"] = ("(", False, [T(b"ce")])
        if v >= (1, 5):
            names["co_lnotab"] = ("str", "s", False, [0x02, 0x01])
    out.append(("names", names, False))
    inner = ("c", False, v, {"co_name": S.text(v, b"g"), "co_firstlineno": "sym"})
    out.append(("nested", {"co_consts": ("(", False, [inner, ("N",)])}, False))
    # one constant of every scalar kind the producing version can write, payloads symbolic
    kinds = [("i", False), ("l", False, 2, True), ("l", False, 1, False)]
    if v < (3, 4):
        kinds.append(("I", False))
    if v >= (2, 5):
        kinds += [("raw", "g", False, [0, 0, 0, 0, 0, 0, 0xf8, 0x3f]), ("raw", "y", False, [0] * 7 + [0x40] + [0] * 7 + [0xc0])]
    kinds += [("raw", "f", False, [3] + list(b"1.5")), ("s", False, 1, False), (tx, False, 1), ("T",), ("F",), (".",), ("S",)]
    out.append(("const-kinds", {"co_consts": ("(", False, kinds)}, False))
    # container constants holding both string kinds, directly and one level down (bytes vs text, tuple vs frozenset)
    pair = [("s", False, 1, False), (tx, False, 1)]
    conts = [("(", False, pair), ("(", False, [("(", False, pair)])]
    if v >= (2, 5):
        conts += [(">", False, pair), (">", False, [("(", False, pair)])]
    for ci, cshape in enumerate(conts):
        out.append(("const-container%d" % ci, {"co_consts": ("(", False, [cshape])}, False))
    # every variable-length field empty
    empt = {"co_code": ("str", "s", False, []), "co_consts": ("(", False, []), "co_names": ("(", False, []),
            "co_filename": S.text(v, b""), "co_name": S.text(v, b"")}
    if v >= (1, 5):
        empt["co_lnotab"] = ("str", "s", False, [])
    out.append(("empties", empt, False))
    if refs:
        # the usual compiler pattern: flagged code, flagged filename shared with the nested code through 'r'
        # stream order: outer code (ref 0) ... co_consts[ inner code (ref 1): its filename (ref 2), its name (ref 3) ],
        # int (ref 4), the inner code again by reference; then the outer filename/name by reference
        inner = ("c", True, v, {"co_filename": ("z", True, 2), "co_name": ("z", True, 1)})
        out.append(("nested-refs", {"co_consts": (")", False, [inner, ("i", True), ("r", 1), ("r", 4)]),
                                    "co_filename": ("r", 2), "co_name": ("r", 3)}, True))
        # constants shared between an outer and a nested code object (what the compiler emits when the same constant
        # occurs in two functions of a module): negative big int, float, text, tuple - flagged once, referenced twice
        for cname, cshape in (("neglong", ("l", True, 2, True)), ("poslong", ("l", True, 3, False)), ("int", ("i", True)),
                              ("text", ("z", True, 2)), ("tuple", (")", True, [("i", False), ("N",)])),
                              ("float", ("raw", "g", True, [0, 0, 0, 0, 0, 0, 0xf8, 0xbf]))):
            inner2 = ("c", True, v, {"co_consts": (")", False, [("r", 1), ("N",)]), "co_name": S.text(v, b"h")})
            out.append(("shared-const-%s" % cname, {"co_consts": (")", False, [cshape, inner2, ("r", 1)])}, True))
        # what marshal.dumps(compile(...)) writes from 3.7 on: the module code object itself unflagged, so the first flagged
        # object - here a constants tuple shared by two functions - sits in reference slot 0
        fn1 = ("c", False, v, {"co_consts": (")", True, [("i", False), ("N",)]), "co_name": S.text(v, b"p")})
        fn2 = ("c", False, v, {"co_consts": ("r", 0), "co_name": S.text(v, b"q")})
        out.append(("shared-slot0", {"co_consts": ("(", False, [fn1, fn2, ("N",)])}, False))
        out.append(("names-short", {"co_names": (")", True, [("Z", True, 1), ("r", 2)]), "co_filename": ("a", False, 1),
                                    "co_name": ("A", True, 1)}, True))
    if v >= (3, 11):
        out.append(("localsplus", {"co_localsplusnames": ("(", False, [S.text(v, b"x"), S.text(v, b"y")]),
                                   "co_localspluskinds": ("kinds", 2)}, False))
    if not py3 and v >= (2, 4):
        out.append(("interned", {"co_names": ("(", False, [("t", False, 1), ("R", 0)]), "co_filename": ("t", False, 1),
                                 "co_name": ("R", 1), "co_varnames": ("(", False, [("R", 0)])}, False))
    return out


def _emit_kinds(b, n):
    b.raw(ord("s"))
    b.i32(n)
    for _ in range(n):
        name = b.sym(1, 4)
        b.items[-1] = ("mul32", name)


def make_ob(magic, v, name, fields, flag, tier):
    fields = dict(fields)
    kinds_n = None
    if "co_localspluskinds" in fields and fields["co_localspluskinds"][0] == "kinds":
        kinds_n = fields["co_localspluskinds"][1]
        del fields["co_localspluskinds"]
    shape = ("c", flag, v, fields)
    b = S.B()
    if kinds_n is None:
        S.emit(b, shape)
    else:
        # emit with a hook for the kinds bytes: kind = 32*k, k in 1..4 (LOCAL, CELL, LOCAL|CELL, FREE)
        fields["co_localspluskinds"] = ("str", "s", False, [0xEE] * kinds_n)
        S.emit(b, ("c", flag, v, fields))
        idxs = [i for i, x in enumerate(b.items) if x == 0xEE]
        assert len(idxs) == kinds_n
        for i in idxs:
            nm = "k%d" % i
            if v >= (3, 12):
                # 3.12 added CO_FAST_HIDDEN (0x10: inlined comprehension variables): kinds 0x20..0x80 in steps of 0x10
                # (0x30 = LOCAL|HIDDEN, 0x70 = LOCAL|HIDDEN|CELL; 0x50 is never written)
                b.params.append((nm, (2, 8)))
                b.items[i] = ("mul16", nm)
                b.pre.append(lambda kw, nm=nm: kw[nm] != 5)
            else:
                b.params.append((nm, (1, 4)))
                b.items[i] = ("mul32", nm)
    params = list(b.params)
    pres = list(b.pre)

    def realise(kw):
        out = []
        for x in b.items:
            if isinstance(x, tuple):
                out.append((16 if x[0] == "mul16" else 32) * kw[x[1]])
            elif isinstance(x, str):
                out.append(kw[x])
            else:
                out.append(x)
        return out

    def pre(**kw):
        for p in pres:
            if not p(kw):
                return False
        return True

    def run(kw, carrier):
        import xdis.unmarshal as U
        items = realise(kw)
        rd = SymReader(carrier(items))
        co = U.load_code(rd, magic, False, {})
        return items, co, rd

    def body(**kw):
        items, co, rd = run(kw, mkbytes)
        ref, endpos = R.load(items, 0, R.Ctx(v))
        assert endpos == len(items), "reference model did not consume the payload (skeleton error)"
        d = R.match(co, ref, py3=v >= (3, 0))
        assert d is None, "decode: " + str(d)
        assert rd.pos == len(items), "consumed: reader at %r of %d" % (rd.pos, len(items))
        import xdis.codetype as CT
        # (not part of the statement, a consistency clause of mine; 1.4 is left out: portableCodeType((1, 4)) names Code15
        # while 1.4 code objects have the 1.3 layout and the unmarshaller builds Code13 - the fields are what C01 is about)
        assert v == (1, 4) or type(co) is CT.portableCodeType(v), "portable class %s for %r" % (type(co).__name__, v)

    def replay(**kw):
        data = bytes(realise(kw))
        try:
            items, co, rd = run(kw, lambda it: bytes(it))
            got, err = R.tag_json(co), None
        except Exception as e:
            got, err = None, "%s: %s" % (type(e).__name__, e)
        if v in c10.REAL and magic == c10.MAGIC.get(v):
            real = R.real_loads(v, [data])[0]
            if "err" in real:
                raise RuntimeError("real marshal.loads %r rejects skeleton %r: %s" % (v, data, real["err"]))
            if err:
                return "load_code(%r, %d) raises %s; CPython %d.%d loads it" % (data, magic, err, v[0], v[1])
            if R.json_eq(got, real["ok"], v < (3, 0)) and rd.pos == len(data):
                return None
            diffs = [n for n in real["ok"][1] if n in got[1] and not R.json_eq(got[1][n], real["ok"][1][n], v < (3, 0))]
            return "load_code(%r, %d): fields %r differ from CPython %d.%d (xdis %r, CPython %r); reader at %d/%d" % (
                data, magic, diffs, v[0], v[1], {n: got[1][n] for n in diffs}, {n: real["ok"][1][n] for n in diffs}, rd.pos, len(data))
        ref, endpos = R.load(list(data), 0, R.Ctx(v))
        if err:
            return "load_code(%r, %d) raises %s [reference model only]" % (data, magic, err)
        d = R.match(co, ref, py3=v >= (3, 0))
        if d is None and rd.pos == len(data):
            return None
        return "load_code(%r, %d): %s; reader at %d/%d [reference model only: no %d.%d interpreter]" % (data, magic, d, rd.pos, len(data), v[0], v[1])

    return Ob(id="C01.m%d.%s" % (magic, name), prop="C01", params=params, body=body, pre=pre, replay=replay, funcs=FUNCS,
              region="%s.%s" % ("py2" if v < (3, 0) else "py3", name),
              skeleton="magic %d (%d.%d layout), skeleton %s" % (magic, v[0], v[1], name),
              bound="%d symbolic payload bytes" % len(params), timeout=90 if tier == "quick" else 300, setup=c10.stub_long,
              oracle="R-model marshal_ref" + ("; replay on real %d.%d" % v if v in c10.REAL else " (no interpreter)"))


def corpus_ob():
    """the repository's own corpus through xdis and through the real marshal of each file's version (concrete)"""
    import glob
    VERS = {(2, 7): ("bytecode_2.7", 8), (3, 6): ("bytecode_3.6", 12), (3, 7): ("bytecode_3.7", 16), (3, 8): ("bytecode_3.8", 16),
            (3, 9): ("bytecode_3.9", 16), (3, 10): ("bytecode_3.10", 16), (3, 11): ("bytecode_3.11", 16), (3, 12): ("bytecode_3.12", 16)}

    def diffs():
        import os
        import sys
        import xdis.load as LD
        from engine import oracles
        bad = []
        n = 0
        devnull = open(os.devnull, "w")
        for ver, (sub, hdr) in sorted(VERS.items()):
            files = sorted(glob.glob("/repo/test/%s/*.pyc" % sub))
            if not files or ver not in oracles.INTERPS:
                continue
            datas = [open(f, "rb").read()[hdr:] for f in files]
            reals = R.real_loads(ver, datas)
            for f, real in zip(files, reals):
                if "err" in real:
                    continue
                saved = sys.stdout, sys.stderr
                sys.stdout = sys.stderr = devnull
                try:
                    try:
                        import io
                        import xdis.magics as M
                        import xdis.unmarshal as U
                        raw = open(f, "rb").read()
                        magic = M.magic2int(raw[:4])
                        if tuple(M.magic_int2tuple(magic)[:2]) != ver:
                            continue
                        co = U.load_code(io.BytesIO(raw[hdr:]), magic, False, {})   # always the portable unmarshaller
                    except Exception as e:
                        bad.append("%s: xdis cannot load what CPython %d.%d loads: %s" % (f, ver[0], ver[1], str(e)[:80]))
                        continue
                finally:
                    sys.stdout, sys.stderr = saved
                n += 1
                got = R.tag_json(co)
                if not R.json_eq(got, real["ok"], ver < (3, 0)):
                    names = [k for k in real["ok"][1] if k in got[1] and not R.json_eq(got[1][k], real["ok"][1][k], ver < (3, 0))]
                    bad.append("%s: fields %r differ from what CPython %d.%d's marshal loads" % (os.path.relpath(f, "/repo/test"), names, ver[0], ver[1]))
        devnull.close()
        return bad, n

    def q():
        bad, n = diffs()
        if bad:
            return "refuted", "%d of the corpus files differ" % len(bad), {"first": bad[0][:80]}, 0, 0.0
        return "confirmed", "%d corpus files" % n, None, 0, 0.0

    def replay(first):
        bad, n = diffs()
        return bad[0] if bad else None

    return Ob(id="C01.corpus", prop="C01", params=[], body=None, direct=q, replay=replay, funcs=FUNCS, region="corpus",
              skeleton="repository bytecode corpus (2.7, 3.6-3.12) through load_module and through the real marshal of each version",
              bound="every corpus file its interpreter loads", timeout=600, oracle="R-real marshal.loads (concrete)")


_VAL = [0]


def evidence_extra():
    return {"oracle_validations": _VAL[0]}


def magics_for(tier):
    import io
    import xdis.magics as M
    import xdis.load as LD
    if tier == "quick":
        return dict(QUICK_MAGICS)
    out = {}
    for m in sorted(M.magicint2version):
        if m in (3400, 3401, 3410, 3411, 62135, 50823):
            continue
        if m in M.GRAAL3_MAGICS:
            continue
        try:
            LD.load_module_from_file_object(io.BytesIO(M.int2magic(m) + b"\0" * 60), get_code=False)
        except Exception:
            continue
        try:
            out[m] = tuple(M.magic_int2tuple(m)[:2])
        except Exception:
            pass
    return out


def generate(tier, seed):
    import os
    import sys
    devnull = open(os.devnull, "w")
    saved = sys.stdout, sys.stderr
    sys.stdout = sys.stderr = devnull
    try:
        ms = magics_for(tier)
    finally:
        sys.stdout, sys.stderr = saved
        devnull.close()
    _VAL[0] = c10.validate_model(seed, sorted(c10.REAL))
    obs = []
    for magic, v in sorted(ms.items()):
        for name, fields, flag in skeletons(v, tier):
            obs.append(make_ob(magic, v, name, fields, flag, tier))
    obs.append(corpus_ob())
    return obs
