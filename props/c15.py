"""C15 - stack effects equal the interpreter's for every opcode and operand."""
import json

from engine import oracles
from engine.runner import Ob
from props.common import defined_ops, has_interp, opc_tables, tshort

LEVEL = "model_checking"
EXPLANATION = (
    "Per (opcode table with an installed interpreter, opcode): the real xdis.cross_dis.xstack_effect is executed "
    "symbolically with the operand a symbolic integer in [0, 2^31) and compared, for all operand values at once, "
    "with a reference expression fitted to the real interpreter's dis.stack_effect: the real C function is "
    "sampled on a dense grid (0..4095, all 2^k and 2^k+-1, byte-boundary patterns, pseudo-random values to 2^31), "
    "the simplest member of a small template family matching every sample is chosen, and the fit is then validated "
    "on a second, disjoint sample set. Counterexamples are replayed on the real dis.stack_effect before being "
    "reported; a counterexample on which the real function agrees with xdis is a fitting error (harness error), "
    "never a finding.")
BOUNDS = {
    "quick": "tables 3.6..3.13 (CPython, interpreter installed); every defined opcode; operand in [0, 2^31)",
    "thorough": "same (the operand domain is already complete); larger validation sample",
}
OUTSIDE = [
    "versions without interpreter (2.x, 3.0-3.5, PyPy): pytest/stackeffect gives only fixed effects; not claimed",
    "agreement between sample points rests on the template family (assumption)",
    "jump=True/False variants (the statement is about jump unspecified)",
]
ASSUMPTIONS = [
    "CPython's stack_effect lies in the template family {const, a*x+b, table over x&m (m in 1,3,7,15,255), "
    "a*(x&255)+b*(x>>8)+c, a*popcount(x&15)+b, special value at one point, linear + c*(x&1)} between samples",
    "CrossHair/z3 soundness; bit-operation rewrite rules",
]
FUNCS = ["xdis.cross_dis.xstack_effect", "opc.oppush", "opc.oppop", "opc.VARGS_OPS", "opc.NARGS_OPS"]

_SAMPLE = r'''
import sys, json, dis
req = json.loads(sys.stdin.read())
out = {}
for op in req["ops"]:
    res = []
    for x in req["xs"]:
        try:
            res.append(dis.stack_effect(op, x))
        except ValueError:
            res.append(None)
    try:
        noarg = dis.stack_effect(op)
    except ValueError:
        noarg = None
    out[str(op)] = [res, noarg]
sys.stdout.write(json.dumps(out))
'''


def grid():
    xs = set(range(0, 4096))
    for k in range(0, 31):
        for d in (-1, 0, 1):
            v = (1 << k) + d
            if 0 <= v < (1 << 31):
                xs.add(v)
    for lo in (0, 1, 2, 3, 255):
        for hi in (1, 2, 3, 255, 256, 65535):
            xs.add(lo + 256 * hi)
    return sorted(xs)


def grid2(seed):
    import random
    rnd = random.Random(1234 + seed)
    xs = set()
    for _ in range(600):
        xs.add(rnd.randrange(0, 1 << rnd.choice([8, 12, 16, 24, 31])))
    return sorted(xs)


def _popcount4(x):
    return (x % 2) + (x // 2) % 2 + (x // 4) % 2 + (x // 8) % 2


def fit(samples):
    """samples: list of (x, effect|None). -> (name, fn, err_threshold) or None.
    err_threshold K: real raises for all x >= K (None: never raises on has-arg form)."""
    ok = [(x, e) for x, e in samples if e is not None]
    bad = [x for x, e in samples if e is None]
    thr = None
    if bad:
        thr = min(bad)
        if any(x >= thr for x, _ in ok):
            return None
    if not ok:
        return ("always-raises", None, 0)
    d = dict(ok)

    def matches(fn):
        return all(fn(x) == e for x, e in ok)

    c = d.get(0, ok[0][1])
    f = lambda x, c=c: c
    if matches(f):
        return ("const %d" % c, f, thr)
    if 0 in d and 1 in d:
        b, a = d[0], d[1] - d[0]
        f = lambda x, a=a, b=b: a * x + b
        if matches(f):
            return ("%d*x+%d" % (a, b), f, thr)
        for cc in (-2, -1, 1, 2):
            if 2 in d:
                a2 = (d[2] - d[0]) // 2
                f = lambda x, a2=a2, b=b, cc=cc: a2 * x + b + cc * (x % 2)
                if matches(f):
                    return ("%d*x+%d+%d*(x&1)" % (a2, b, cc), f, thr)
    for m in (1, 3, 7, 15, 255):
        tbl = {}
        good = True
        for x, e in ok:
            k = x & m
            if tbl.setdefault(k, e) != e:
                good = False
                break
        if good and len(tbl) == m + 1:
            lst = [tbl[i] for i in range(m + 1)]
            f = lambda x, lst=lst, m=m: lst[x % (m + 1)]
            return ("table[x&%d]=%r" % (m, lst if m < 16 else "..."), f, thr)
    if 0 in d and 1 in d and 256 in d:
        c0 = d[0]
        a = d[1] - c0
        b = d[256] - c0
        f = lambda x, a=a, b=b, c0=c0: a * (x % 256) + b * (x // 256) + c0
        if matches(f):
            return ("%d*(x&255)+%d*(x>>8)+%d" % (a, b, c0), f, thr)
    if 0 in d and 1 in d:
        b, a = d[0], d[1] - d[0]
        f = lambda x, a=a, b=b: a * _popcount4(x) + b
        if matches(f):
            return ("%d*popcount(x&15)+%d" % (a, b), f, thr)
    # special value at a single point
    from collections import Counter
    common, _n = Counter(e for _, e in ok).most_common(1)[0]
    odd = [(x, e) for x, e in ok if e != common]
    if len(odd) == 1:
        k, v = odd[0]
        f = lambda x, k=k, v=v, common=common: v if x == k else common
        return ("%d if x==%d else %d" % (v, k, common), f, thr)
    return None


_INFO = {"fitted": 0, "unfittable": [], "validated": 0, "real_samples": 0}


def evidence_extra():
    return {"oracle_validations": _INFO["validated"], "fitted_opcodes": _INFO["fitted"],
            "unfittable_opcodes": _INFO["unfittable"], "real_samples": _INFO["real_samples"]}


def make_ob(tname, opc, op, name, fn, thr, noarg_effect, tier):
    vt = tuple(opc.version_tuple[:2])
    has_arg = op >= opc.HAVE_ARGUMENT
    params = [("x", (0, (1 << 31) - 1))]

    def pre(x):
        if thr is not None and not (x < thr):
            return False
        return True

    def body(x):
        import xdis.cross_dis as X
        if has_arg:
            got = X.xstack_effect(op, opc, x)
            want = fn(x)
        else:
            got = X.xstack_effect(op, opc)
            want = noarg_effect
        assert got is not None and got == want, "stack_effect(%s, %r): xdis %r, CPython-fit %r" % (opc.opname[op], x, got, want)

    def replay(x):
        import xdis.cross_dis as X
        r = oracles.run_in(vt, _SAMPLE, {"ops": [op], "xs": [x]})[str(op)]
        real = r[0][0] if has_arg else r[1]
        got = X.xstack_effect(op, opc, x) if has_arg else X.xstack_effect(op, opc)
        if real is None:
            raise RuntimeError("fit error: CPython rejects (%d, %d) but the fitted domain includes it" % (op, x))
        if got == real:
            raise RuntimeError("fit error: xdis agrees with the real dis.stack_effect(%d, %d) = %r; fitted model wrong" % (op, x, real))
        return "xstack_effect(%s%s) on %s = %r, CPython %d.%d dis.stack_effect = %r" % (
            opc.opname[op], ", %d" % x if has_arg else "", tname, got, vt[0], vt[1], real)

    return Ob(id="C15.%s.op%d" % (tshort(tname), op), prop="C15", params=params if has_arg else [("x", (0, 0))],
              body=body, pre=pre, replay=replay, funcs=FUNCS, region="%s.%s" % (tshort(tname), opc.opname[op]),
              skeleton="table=%s opcode=%d(%s) reference=%s%s" % (tname, op, opc.opname[op], name if has_arg else noarg_effect,
                                                                  "" if thr is None else " (CPython raises for x>=%d)" % thr),
              bound="operand in [0, 2^31)" if has_arg else "no operand", timeout=30 if tier == "quick" else 120,
              oracle="R-fit: dis.stack_effect of CPython %d.%d sampled on %d points" % (vt[0], vt[1], len(grid())))


def generate(tier, seed):
    obs = []
    xs = grid()
    xs2 = grid2(seed)
    _INFO.update({"fitted": 0, "unfittable": [], "validated": 0, "real_samples": 0})
    for tname, opc in opc_tables().items():
        vt = tuple(opc.version_tuple[:2])
        if not has_interp(opc) or vt < (3, 6):
            continue
        ops = defined_ops(opc)
        real = oracles.run_in(vt, _SAMPLE, {"ops": ops, "xs": xs})
        real2 = oracles.run_in(vt, _SAMPLE, {"ops": ops, "xs": xs2})
        _INFO["real_samples"] += len(ops) * (len(xs) + len(xs2))
        for op in ops:
            res, noarg = real[str(op)]
            has_arg = op >= opc.HAVE_ARGUMENT
            if not has_arg:
                if noarg is None:
                    continue  # CPython rejects: xdis may return anything
                obs.append(make_ob(tname, opc, op, "const", None, None, noarg, tier))
                _INFO["fitted"] += 1
                continue
            ft = fit(list(zip(xs, res)))
            if ft is None:
                _INFO["unfittable"].append("%s:%s" % (tname, opc.opname[op]))
                continue
            name, fn, thr = ft
            if fn is None:
                continue
            # validate the fit on the disjoint sample
            okfit = True
            for x, e in zip(xs2, real2[str(op)][0]):
                if thr is not None and x >= thr:
                    if e is not None:
                        okfit = False
                elif e is None or fn(x) != e:
                    okfit = False
                _INFO["validated"] += 1
            if not okfit:
                # C int arithmetic wraps for 2*oparg >= 2^31: retry with the operand domain cut at 2^30
                cut = 1 << 30
                okfit = all((e is not None and fn(x) == e) for x, e in zip(xs2, real2[str(op)][0])
                            if x < (cut if thr is None else min(cut, thr)))
                if okfit:
                    thr = cut if thr is None else min(cut, thr)
                    name += " [operand < 2^30: C int wrap above]"
            if not okfit:
                _INFO["unfittable"].append("%s:%s (fit %s failed validation)" % (tname, opc.opname[op], name))
                continue
            _INFO["fitted"] += 1
            obs.append(make_ob(tname, opc, op, name, fn, thr, None, tier))
    return obs
