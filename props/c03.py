"""C03 - operands resolve to the same constant, name or variable CPython resolves."""
from engine import oracles
from engine.runner import Ob
from props.common import byte_params, cache_entries, has_interp, mkbytes, no_text, tables_for, tshort
from props.c02 import _pick

LEVEL = "model_checking"
EXPLANATION = (
    "Bounded symbolic model checking of the real operand resolution: for each opcode table x table-indexed opcode "
    "(const/name/local/free/compare categories of the xdis table united with the real interpreter's) x EXTENDED_ARG "
    "count, a code string with a symbolic operand is decoded by xdis.bytecode.get_instructions_bytes with marker tables "
    "(distinct constants, names, locals, cells, frees; a parameter that is also a cell; tables of 300 entries for the "
    ">255 clause). For every operand value the resolved argval must equal what CPython's own dis source "
    "(_get_instructions_bytes of the installed 3.6-3.13) resolves on the same symbolic bytes and tables - operands CPython "
    "itself rejects (IndexError) are outside - or, for versions without a Python-level dis reference, table[operand].")
BOUNDS = {"quick": "representative tables; every table-indexed opcode; 0-1 EXTENDED_ARG prefixes; operand bytes fully symbolic; "
                   "tables of 3-4 markers and of 300 markers",
          "thorough": "all tables; 0-2 prefixes"}
OUTSIDE = ["argrepr text (C12)", "PyPy's 'name index >= len(names)' quirk is kept as xdis documents it",
           "the localsplus table for 3.11+ is modelled as varnames + cells-not-in-varnames + frees (validated against real "
           "3.11-3.13 code objects at run time)", "versions <= 3.5: reference is table[operand] (2.7 dis has no importable resolver)"]
ASSUMPTIONS = ["CrossHair/z3 soundness; bit-operation rules", "R-src dis.py of 3.6-3.13", "text formatters stubbed (no_text)"]
FUNCS = ["xdis.bytecode.get_logical_instruction_at_offset (resolution block)", "xdis.bytecode.get_const_info",
         "xdis.bytecode.get_name_info", "xdis.bytecode.get_optype", "xdis.opcodes.base.update_sets (category sets)"]

VARNAMES = ("a", "b", "c")
CELLVARS = ("b", "x")
FREEVARS = ("f",)
NAMES = ("n0", "n1", "n2", "n3")
CONSTS = (10, "k", None, 3.5)
BIG = tuple("m%d" % i for i in range(300))
BIGC = tuple(1000 + i for i in range(300))
HUGE = tuple("h%d" % i for i in range(66000))       # tables beyond 65536 entries: operands that need two EXTENDED_ARG prefixes
HUGEC = tuple(100000 + i for i in range(66000))
HUGE_OPERANDS = [65535, 65536, 65537, 131070, 131071, 131072, 131073] + list(range(262140, 262148))


def cat_ops(opc):
    cats = {}
    real = oracles.opcode_dump(opc.version_tuple[:2])["opcode"] if has_interp(opc) else None
    for cat, setname in (("hasconst", "CONST_OPS"), ("hasname", "NAME_OPS"), ("haslocal", "LOCAL_OPS"),
                         ("hasfree", "FREE_OPS"), ("hascompare", "COMPARE_OPS")):
        ops = set(getattr(opc, setname))
        if real:
            ops |= set(real[cat])
        for o in ops:
            if o < 256 and o >= opc.HAVE_ARGUMENT and not opc.opname[o].startswith("<"):
                cats.setdefault(o, cat)
    return cats


HYPH = (7, 9, 10)   # 'not in', 'is not', 'exception match': xdis spells them with hyphens (known finding)


def make_ob(tname, opc, op, cat, k, big, tier, hyph=None):
    vt = tuple(opc.version_tuple[:2])
    word = vt >= (3, 6)
    use_src = has_interp(opc) and vt >= (3, 6)
    nbytes = (k + 1) if word else 2 * (k + 1)
    params = byte_params("b", nbytes)
    if big == 2:
        # a symbolic index into a 66000-entry tuple stalls CrossHair (it does not realise it the way it does for short
        # tuples): the operand is a symbolic *choice* among the boundary values, its bytes are concrete on each path
        params = [("w", (0, len(HUGE_OPERANDS) - 1))]
    noarg = _pick(opc, ["NOP", "POP_TOP"])
    ext_op = getattr(opc, "EXTENDED_ARG", None)
    # (the 66000-entry table only for the category under test: every pass over a table is traced)
    names = (HUGE if cat == "hasname" else NAMES) if big == 2 else (BIG if big else NAMES)
    consts = (HUGEC if cat == "hasconst" else CONSTS) if big == 2 else (BIGC if big else CONSTS)
    varnames = (HUGE if cat in ("haslocal", "hasfree") else VARNAMES) if big == 2 else (BIG if big else VARNAMES)
    cellvars = CELLVARS
    freevars = FREEVARS
    cells = cellvars + freevars
    localsplus = tuple(varnames) + tuple(c for c in cellvars if c not in varnames) + tuple(freevars)

    def huge_bytes(w):
        from crosshair.core import realize
        v = HUGE_OPERANDS[realize(w)]
        if word:
            return [(v >> (8 * (nbytes - 1 - j))) & 255 for j in range(nbytes)]
        out = []
        for j in range(nbytes // 2):
            u = (v >> (16 * (nbytes // 2 - 1 - j))) & 0xFFFF
            out += [u & 255, u >> 8]
        return out

    def pre(**kw):
        if big == 2:
            return True
        bs = [kw["b%d" % i] for i in range(nbytes)]
        arg = 0
        if word:
            for b in bs:
                arg = arg * 256 + b
        else:
            for j in range(0, nbytes, 2):
                arg = arg * 65536 + bs[j] + 256 * bs[j + 1]
        if hyph is not None:
            is_h = any(arg == h for h in HYPH)
            if is_h != hyph:
                return False
        if big:
            # indexing a 300-entry table with a symbolic index is realised one value at a time: windows across the
            # 255/256 boundary of the index, also for operands that encode the index shifted by 1 or 2 bits
            return (250 <= arg <= 262) or (506 <= arg <= 518) or (1018 <= arg <= 1030)
        return arg < 20000   # beyond the tables: IndexError on both sides

    def body(**kw):
        import xdis.bytecode as B
        bs = huge_bytes(kw["w"]) if big == 2 else [kw["b%d" % i] for i in range(nbytes)]
        items = []
        if word:
            items += [noarg, 0]
            for j in range(k):
                items += [ext_op, bs[j]]
            off = len(items)
            items += [op, bs[k]]
            for _ in range(cache_entries(opc, op)):
                items += [0, 0]
            items += [noarg, 0]
            arg = 0
            for b in bs:
                arg = arg * 256 + b
        else:
            items += [noarg]
            for j in range(k):
                items += [ext_op, bs[2 * j], bs[2 * j + 1]]
            off = len(items)
            items += [op, bs[2 * k], bs[2 * k + 1]]
            items += [noarg]
            arg = 0
            for j in range(0, nbytes, 2):
                arg = arg * 65536 + bs[j] + 256 * bs[j + 1]
        code = mkbytes(items)
        want = None
        if use_src:
            try:
                src = oracles.src_instructions(vt, code, varnames=varnames, names=names, constants=consts, cells=cells,
                                               localsplus=localsplus)
            except (IndexError, KeyError):
                return   # CPython itself rejects this operand: outside the statement
            for sdict in src:
                if sdict["offset"] == off:
                    want = sdict["argval"]
            unk = getattr(oracles.load_dis(vt), "UNKNOWN", None)
            if unk is not None and want is unk:
                # CPython's dis does not resolve this operand at all (e.g. 3.11 KW_NAMES): the table entry is the reference
                table = {"hasconst": consts, "hasname": names, "haslocal": varnames, "hasfree": cells}.get(cat)
                if table is None or not (arg < len(table)):
                    return
                want = table[arg]
        else:
            table = {"hasconst": consts, "hasname": names, "haslocal": varnames, "hasfree": cells,
                     "hascompare": opc.cmp_op}[cat]
            if cat == "hasname" and getattr(opc, "is_pypy", False):
                if not (arg < len(table)):
                    return
            if not (arg < len(table)):
                return
            want = table[arg]
        with no_text(opc):
            insts = list(B.get_instructions_bytes(code, opc, varnames, names, consts, cells))
        got = None
        for ins in insts:
            if ins.offset == off:
                got = ins
        assert got is not None and got.opcode == op, "no instruction at %d" % off
        assert _same(got.argval, want), "argval: xdis %r, CPython %r (operand %r)" % (got.argval, want, arg)

    return Ob(id="C03.%s.op%d.k%d%s%s" % (tshort(tname), op, k, (".huge" if big == 2 else ".big") if big else "", ".hyph" if hyph else ""), prop="C03",
              params=params, body=body,
              pre=pre, funcs=FUNCS, region="cmp_op-hyphenated" if hyph else "%s.%s" % (tshort(tname), opc.opname[op]),
              skeleton="table=%s opcode=%d(%s) category=%s prefixes=%d tables=%s" % (tname, op, opc.opname[op], cat, k, ("66000 markers" if big == 2 else "300 markers") if big else "small"),
              bound="operand bytes symbolic (operand < 20000)" if not big else
              "operand: symbolic choice among 65535..65537, 131070..131073, 262140..262147 (index crossing 65535/65536, also shifted by 1 or 2 bits)" if big == 2 else
              "operand in [250,262] U [506,518] U [1018,1030] (index crossing 255/256, also when shifted by 1 or 2 bits)", timeout=60 if tier == "quick" else 200,
              oracle="R-src dis._get_instructions_bytes of CPython %d.%d" % vt if use_src else "table[operand]")


def seq_ob(tname, opc, op, cat, tier):
    """two different code objects decoded one after the other in the same process: equal co_varnames, different
    cells/frees/names/constants - the second must resolve against its own tables"""
    vt = tuple(opc.version_tuple[:2])
    word = vt >= (3, 6)
    use_src = has_interp(opc) and vt >= (3, 6)
    noarg = _pick(opc, ["NOP", "POP_TOP"])
    tabs_a = dict(varnames=("a", "b"), cells=("b", "x") + ("fr",), names=("n0", "n1", "n2"), consts=(10, "k", None))
    tabs_b = dict(varnames=("a", "b"), cells=("q",) + ("w", "z"), names=("m0", "m1", "m2"), consts=(77, "j", 5.5))

    def lp(t):
        cv = t["cells"][:-1] if t is tabs_a else t["cells"][:1]
        fv = t["cells"][-1:] if t is tabs_a else t["cells"][1:]
        return tuple(t["varnames"]) + tuple(c for c in cv if c not in t["varnames"]) + tuple(fv)

    def body(x, y):
        import xdis.bytecode as B
        res = []
        for t, operand in ((tabs_a, x), (tabs_b, y)):
            items = ([noarg, 0, op, operand] if word else [noarg, op, operand, 0])
            for _ in range(cache_entries(opc, op) if word else 0):
                items += [0, 0]
            code = mkbytes(items)
            off = 2 if word else 1
            want = None
            skip = False
            if use_src:
                try:
                    src = oracles.src_instructions(vt, code, varnames=t["varnames"], names=t["names"], constants=t["consts"],
                                                   cells=t["cells"], localsplus=lp(t))
                    for sd in src:
                        if sd["offset"] == off:
                            want = sd["argval"]
                    unk = getattr(oracles.load_dis(vt), "UNKNOWN", None)
                    if unk is not None and want is unk:
                        skip = True
                except (IndexError, KeyError):
                    skip = True
            else:
                table = {"hasconst": t["consts"], "hasname": t["names"], "haslocal": t["varnames"], "hasfree": t["cells"],
                         "hascompare": opc.cmp_op}[cat]
                if operand < len(table):
                    want = table[operand]
                else:
                    skip = True
            if skip:
                # still decode, so that whatever the first call leaves behind is there for the second
                try:
                    with no_text(opc):
                        list(B.get_instructions_bytes(code, opc, t["varnames"], t["names"], t["consts"], t["cells"]))
                except (IndexError, KeyError):
                    pass
                continue
            with no_text(opc):
                insts = list(B.get_instructions_bytes(code, opc, t["varnames"], t["names"], t["consts"], t["cells"]))
            got = [i for i in insts if i.offset == off][0]
            assert _same(got.argval, want), "argval of the %s code object: xdis %r, CPython %r (operand %r)" % (
                "first" if t is tabs_a else "second", got.argval, want, operand)

    return Ob(id="C03.%s.op%d.seq" % (tshort(tname), op), prop="C03", params=[("x", (0, 7)), ("y", (0, 7))], body=body, funcs=FUNCS,
              region="%s.%s.seq" % (tshort(tname), opc.opname[op]),
              skeleton="table=%s opcode=%d(%s): code object A then code object B (same varnames, different other tables)" % (tname, op, opc.opname[op]),
              bound="operands 0..7 each", timeout=60 if tier == "quick" else 200,
              oracle="R-src per code object" if use_src else "table[operand] per code object")


def _same(a, b):
    if isinstance(a, tuple) or isinstance(b, tuple):
        return isinstance(a, tuple) and isinstance(b, tuple) and len(a) == len(b) and all(_same(x, y) for x, y in zip(a, b))
    if a is None or b is None:
        return a is None and b is None
    if type(a) is float or type(b) is float:
        return type(a) is type(b) and a == b
    return a == b


_VAL = [0]


def evidence_extra():
    return {"oracle_validations": _VAL[0]}


_LP_SCRIPT = r'''
import sys, json
def outer(a, b, c):
    x = 1
    def inner():
        return b, x
    return inner
co = outer.__code__
ico = [k for k in co.co_consts if hasattr(k, "co_code")][0]
out = []
for c in (co, ico):
    n = len(c.co_varnames) + len([v for v in c.co_cellvars if v not in c.co_varnames]) + len(c.co_freevars)
    out.append([list(c.co_varnames), list(c.co_cellvars), list(c.co_freevars), [c._varname_from_oparg(i) for i in range(n)]])
sys.stdout.write(json.dumps(out))
'''


def validate_localsplus():
    n = 0
    for v in ((3, 11), (3, 12), (3, 13)):
        for vn, cv, fv, lp in oracles.run_in(v, _LP_SCRIPT):
            model = list(vn) + [c for c in cv if c not in vn] + list(fv)
            if model != lp:
                raise RuntimeError("localsplus model wrong for %r: %r vs real %r" % (v, model, lp))
            n += 1
    return n


def generate(tier, seed):
    _VAL[0] = validate_localsplus()
    obs = []
    for tname, opc in tables_for(tier).items():
        vt = tuple(opc.version_tuple[:2])
        if has_interp(opc) and vt >= (3, 6):
            oracles.load_dis(vt)
        ext_op = getattr(opc, "EXTENDED_ARG", None)
        huge_done = set()
        for op, cat in sorted(cat_ops(opc).items()):
            ks = (0, 1) if tier == "quick" else (0, 1, 2)
            if ext_op is None:
                ks = (0,)
            if vt < (3, 6):
                ks = (0,) if tier == "quick" else (0, 1)
            if cat != "hascompare":
                obs.append(seq_ob(tname, opc, op, cat, tier))
            for k in ks:
                if k == 0:
                    if cat == "hascompare" and vt < (3, 9):
                        obs.append(make_ob(tname, opc, op, cat, 0, False, tier, hyph=False))
                        obs.append(make_ob(tname, opc, op, cat, 0, False, tier, hyph=True))
                    else:
                        obs.append(make_ob(tname, opc, op, cat, 0, False, tier))
                if cat != "hascompare" and (k >= 1 or vt < (3, 6)):
                    obs.append(make_ob(tname, opc, op, cat, k, True, tier))
            # tables with more than 65536 entries (word code: two prefixes; 16-bit operands: one prefix); quick: the first
            # opcode of each category per table
            if cat != "hascompare" and ext_op is not None and (tier == "thorough" or cat not in huge_done):
                huge_done.add(cat)
                obs.append(make_ob(tname, opc, op, cat, 2 if vt >= (3, 6) else 1, 2, tier))
    from props.corpus import corpus_ob
    obs.append(corpus_ob("C03", "argval", FUNCS))
    return obs
