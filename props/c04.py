"""C04 - jump targets, labels and is_jump_target agree with CPython and with each other."""
from engine import oracles
from engine.runner import Ob
from props.common import (byte_params, cache_entries, has_interp, mkbytes, no_text, tables_for, tshort)
from props.c02 import _pick

LEVEL = "model_checking"
EXPLANATION = (
    "Bounded symbolic model checking of the real label finders and jump-operand translation: for every "
    "opcode table x jump opcode x number of EXTENDED_ARG prefixes x position, a code string with concrete "
    "opcodes and fully symbolic operand bytes (and, for 3.11+, a symbolic exception-handler target) is "
    "decoded by xdis.bytecode.get_instructions_bytes and opc.findlabels under CrossHair/z3; for all operand "
    "values at once the jump argval, the label set and every is_jump_target flag are compared with an "
    "arithmetic reference and, where an interpreter is installed, with CPython's own dis source "
    "(findlabels, _get_instructions_bytes) executed on the same symbolic bytes.")
BOUNDS = {
    "quick": "representative tables; every opcode in JREL_OPS U JABS_OPS (xdis table U real table) + one non-jump; "
             "k in 0..2 prefixes (word code) / 0..1 (pre-3.6); operand bytes fully symbolic (< 2^31); "
             "p in {0,2} preceding instructions; one exception entry with symbolic target (3.11+)",
    "thorough": "all tables; same opcode sets; k in 0..3 / 0..1; p in {0,1,3}",
}
OUTSIDE = [
    "whole-function label sets beyond one jump + 4 neighbours (finders are single-pass, stateless except EXTENDED_ARG)",
    "that compiler output only ever targets instruction starts (the claim is the translation operand -> offset)",
    "versions without an installed interpreter: arithmetic reference and internal consistency only",
    "2.7 dis.findlabels ignores EXTENDED_ARG, so for k=1 on 2.7 only the arithmetic reference is used",
]
ASSUMPTIONS = [
    "CrossHair/z3 soundness; bit-operation rewrite rules of engine/chplug.py",
    "operand text formatters stubbed (no_text)",
    "R-src: dis.py of the installed interpreter exec'd with a shim opcode module dumped from that interpreter",
    "cache slot counts for 3.11+ from the real interpreter's opcode._inline_cache_entries",
]
FUNCS = ["xdis.cross_dis.findlabels", "xdis.cross_dis.findlabels_310", "xdis.cross_dis.findlabels_pre_310",
         "xdis.cross_dis._get_cache_size_313", "xdis.wordcode.findlabels", "xdis.bytecode.get_jump_val",
         "xdis.bytecode.get_logical_instruction_at_offset", "xdis.bytecode.get_instructions_bytes",
         "xdis.cross_dis.unpack_opargs_bytecode", "xdis.cross_dis.unpack_opargs_bytecode_310",
         "xdis.wordcode.unpack_opargs_wordcode", "xdis.opcodes.base.init_opdata (findlabels binding)"]


def jump_ops(opc):
    ops = set(opc.JREL_OPS) | set(opc.JABS_OPS)
    if has_interp(opc):
        d = oracles.opcode_dump(opc.version_tuple[:2])["opcode"]
        ops |= set(d["hasjrel"]) | set(d["hasjabs"])
    return sorted(o for o in ops if o < 256 and not opc.opname[o].startswith("<"))


def ref_target(opc, op, arg, next_off, real=None):
    """arithmetic reference of the property statement"""
    vt = opc.version_tuple
    name = opc.opname[op]
    jrel = op in (real["hasjrel"] if real else opc.JREL_OPS)
    jabs = op in (real["hasjabs"] if real else opc.JABS_OPS)
    scale = 2 if vt >= (3, 10) else 1
    if jrel:
        if vt >= (3, 11) and "JUMP_BACKWARD" in name:
            arg = -arg
        t = next_off + scale * arg
        if vt >= (3, 11):
            t += 2 * cache_entries(opc, op)
        return t
    if jabs:
        return scale * arg
    return None


def same_labels(a, b):
    """set equality of two label lists of length <= 1 each, after de-duplication, without hashing"""
    a = dedupe(a)
    b = dedupe(b)
    if len(a) != len(b):
        return False
    for x in a:
        if not any(x == y for y in b):
            return False
    return True


def dedupe(xs):
    out = []
    for x in xs:
        if not any(x == y for y in out):
            out.append(x)
    return out


def make_ob(tname, opc, op, k, p, tier):
    word = opc.version_tuple >= (3, 6)
    vt = tuple(opc.version_tuple[:2])
    has_arg = op >= opc.HAVE_ARGUMENT
    nbytes = (k + 1) if word else 2 * (k + 1)
    use_src = has_interp(opc) and vt >= (3, 6)
    use_27 = has_interp(opc) and vt == (2, 7) and k == 0
    with_exc = vt >= (3, 11)
    params = byte_params("b", nbytes) + [("t", (0, 255))]
    if with_exc:
        params.append(("h", (0, 12)))
    real = oracles.opcode_dump(vt)["opcode"] if has_interp(opc) else None
    noarg = _pick(opc, ["NOP", "POP_TOP", "ROT_TWO", "STOP_CODE"])
    tail = _pick(opc, ["LOAD_CONST", "LOAD_FAST", "LOAD_NAME"])
    ext_op = getattr(opc, "EXTENDED_ARG", None)

    def pre(**kw):
        bs = [kw["b%d" % i] for i in range(nbytes)]
        if word and k >= 3 and not (bs[0] < 128):
            return False
        if (not word) and k == 1 and not (bs[1] < 128):
            return False
        return True

    def body(**kw):
        import xdis.bytecode as B
        import xdis.cross_dis as X
        bs = [kw["b%d" % i] for i in range(nbytes)]
        items = []
        if word:
            for _ in range(p):
                items += [noarg, 0]
            for j in range(k):
                items += [ext_op, bs[j]]
            jump_off = len(items)
            items += [op, bs[k]]
            next_off = len(items)
            for _ in range(cache_entries(opc, op)):
                items += [0, 0]
            items += [tail, kw["t"]]
            for _ in range(cache_entries(opc, tail)):
                items += [0, 0]
            arg = 0
            for b in bs:
                arg = arg * 256 + b
        else:
            for _ in range(p):
                items += [noarg]
            for j in range(k):
                items += [ext_op, bs[2 * j], bs[2 * j + 1]]
            jump_off = len(items)
            items += [op, bs[2 * k], bs[2 * k + 1]]
            next_off = len(items)
            items += [tail, kw["t"], 0]
            arg = 0
            for j in range(0, nbytes, 2):
                arg = arg * 65536 + bs[j] + 256 * bs[j + 1]
        code = mkbytes(items)
        ee = None
        htarget = None
        if with_exc:
            htarget = 2 * kw["h"]
            ee = [(0, 2, htarget, 0, False)]
        with no_text(opc):
            insts = list(B.get_instructions_bytes(code, opc, exception_entries=ee))
            labels = list(opc.findlabels(code, opc))
        want = ref_target(opc, op, arg, next_off, real)
        J = None
        for ins in insts:
            if ins.offset == jump_off:
                J = ins
        assert J is not None and J.opcode == op, "no instruction at the jump's offset"
        # NB: no sets/dicts keyed by symbolic values (hashing would realise them); one jump => <= 1 label
        wantl = [] if want is None else [want]
        if want is not None:
            assert J.argval == want, "argval: xdis %r, reference %r" % (J.argval, want)
            assert J.optype in ("jrel", "jabs"), "optype %r" % (J.optype,)
        assert same_labels(labels, wantl), "findlabels: xdis %r, reference %r" % (labels, wantl)
        for ins in insts:
            exp = (want is not None and ins.offset == want) or (htarget is not None and ins.offset == htarget)
            assert bool(ins.is_jump_target) == bool(exp), "is_jump_target at %d: xdis %r, reference %r" % (
                ins.offset, ins.is_jump_target, exp)
        # the generic dispatcher agrees with the finder the table binds (where it is meant to apply)
        if (not word) or vt >= (3, 10):
            with no_text(opc):
                l2 = list(X.findlabels(code, opc))
            assert same_labels(l2, labels), "cross_dis.findlabels %r != opc.findlabels %r" % (l2, labels)
        if use_src:
            dis = oracles.load_dis(vt)
            sl = list(dis.findlabels(code))
            assert same_labels(labels, sl), "vs-dis findlabels: xdis %r, CPython %r" % (labels, sl)
            src = oracles.src_instructions(vt, code, exception_entries=ee or ())
            by = {}
            for ins in insts:
                by[ins.offset] = ins
            for s in src:
                ins = by.get(s["offset"])
                assert ins is not None, "dis offset %d missing in xdis" % s["offset"]
                if s["offset"] == jump_off and (op in real["hasjrel"] or op in real["hasjabs"]):
                    assert ins.argval == s["argval"], "vs-dis argval: xdis %r, CPython %r" % (ins.argval, s["argval"])
                assert bool(ins.is_jump_target) == bool(s["is_jump_target"]), \
                    "vs-dis is_jump_target at %d: xdis %r, CPython %r" % (s["offset"], ins.is_jump_target, s["is_jump_target"])
        if use_27:
            fl = oracles.load_dis27()["findlabels"]
            sl = list(fl(code))
            assert same_labels(labels, sl), "vs-dis27 findlabels: xdis %r, CPython %r" % (labels, sl)

    return Ob(
        id="C04.%s.op%d.k%d.p%d" % (tshort(tname), op, k, p), prop="C04", params=params, body=body, pre=pre,
        funcs=FUNCS, skeleton="table=%s opcode=%d(%s) ext_prefixes=%d preceding=%d%s" % (
            tname, op, opc.opname[op], k, p, " exc-entry" if with_exc else ""),
        bound="operand bytes symbolic 0..255 each (operand < 2^31); handler target 2*h, h in 0..12",
        timeout=40 if tier == "quick" else 90,
        oracle="arithmetic reference" + ("; R-src dis.findlabels/_get_instructions_bytes of CPython %d.%d" % vt
                                         if (use_src or use_27) else ""))


def generate(tier, seed):
    obs = []
    for tname, opc in tables_for(tier).items():
        word = opc.version_tuple >= (3, 6)
        ext_op = getattr(opc, "EXTENDED_ARG", None)
        if has_interp(opc) and opc.version_tuple >= (3, 6):
            oracles.load_dis(tuple(opc.version_tuple[:2]))
        if has_interp(opc) and tuple(opc.version_tuple[:2]) == (2, 7):
            oracles.load_dis27()
        ops = jump_ops(opc)
        ctl = _pick(opc, ["LOAD_NAME", "LOAD_GLOBAL", "STORE_NAME"])
        if ctl is not None:
            ops = ops + [ctl]
        if word:
            ks = (0, 1, 2) if tier == "quick" else (0, 1, 2, 3)
        else:
            ks = (0, 1)
        if ext_op is None:
            ks = (0,)
        ps = (0, 2) if tier == "quick" else (0, 1, 3)
        for op in ops:
            if op < opc.HAVE_ARGUMENT:
                continue
            for k in ks:
                for p in ps:
                    obs.append(make_ob(tname, opc, op, k, p, tier))
    from props.corpus import corpus_ob
    obs.append(corpus_ob("C04", "jumps", FUNCS))
    return obs
