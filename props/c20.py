"""C20 - xdis.std is a faithful drop-in for the host's dis module."""
import dis as host_dis
import sys

from engine import oracles
from engine.runner import Ob
from props.common import (cache_entries, defined_ops, install_iter_unpack_model, make_portable, mkbytes, no_text, opc_tables,
                          tshort)
from props.c02 import _pick
from props import c17
from refmodels import locations311 as L311

LEVEL = "model_checking"
EXPLANATION = (
    "Symbolic part (host = the 3.12 interpreter the checks run on): for every opcode of the host table a code object with a "
    "symbolic operand, symbolic co_firstlineno / first_line and a two-entry location table with symbolic line deltas (line 0 "
    "allowed, as module-level RESUME has) is handed to xdis.std.get_instructions / findlabels / findlinestarts, and - with the "
    "same content - to the host's own dis *source* (get_instructions, findlabels, findlinestarts of CPython 3.12 run on the same "
    "symbolic values); opcode, opname, arg, offset, is_jump_target, starts_line (with the first_line shift) and argval must be "
    "equal for all values. make_std_api(v) for v in 2.7, 3.6-3.13 is driven the same way on version-v code against the dis "
    "source of v (arithmetic reference for 2.7). Concrete part: every kind of object dis accepts (function, method, generator, "
    "coroutine, async generator, class, code object, source string, lambda, closure) goes through xdis.std and the real host dis "
    "with and without first_line; the module-level tables are compared with the host's opcode module by a direct SMT query.")
BOUNDS = {"quick": "host table: every opcode, operand 0..63 (0..7 table-indexed) within validity, first_line/co_firstlineno 1..10^5, 1 symbolic location entry; "
                   "make_std_api: 9 versions x 4 opcode kinds; 11 object kinds", "thorough": "same + EXTENDED_ARG prefix on host table"}
OUTSIDE = ["hosts other than 3.12 (other hosts: C07 replay)", "stack_effect (C15)", "dis.dis text formatting", "show_caches/adaptive"]
ASSUMPTIONS = ["R-src dis.py of each version", "locations311 model for the reference co_lines()", "CrossHair/z3 soundness"]
FUNCS = ["xdis.std._StdApi.*", "xdis.std.make_std_api", "xdis.cross_dis.get_code_object", "xdis.bytecode.Bytecode.__init__",
         "xdis.bytecode.Bytecode.get_instructions", "xdis.bytecode.get_instructions_bytes", "xdis.cross_dis.findlinestarts",
         "xdis.wordcode.findlabels", "xdis.cross_dis.findlabels"]

HOST = tuple(sys.version_info[:2])
VARNAMES = ("a", "b", "c")
NAMES = ("n0", "n1", "n2")
CONSTS = (10, "k", None)
CELLS = ("b", "x")
FREES = ("fr",)
LOCALSPLUS = VARNAMES + tuple(c for c in CELLS if c not in VARNAMES) + FREES


class RefCode(object):
    """code object as the host's dis source sees it: content identical, line data from the validated model"""

    def __init__(self, items, code_bytes, table_items, firstlineno, exctable=b""):
        self.co_code = code_bytes
        self.co_consts = CONSTS
        self.co_names = NAMES
        self.co_varnames = VARNAMES
        self.co_cellvars = CELLS
        self.co_freevars = FREES
        self.co_firstlineno = firstlineno
        self.co_exceptiontable = exctable
        self._table = table_items

    def co_lines(self):
        return iter(L311.lines(self._table, self.co_firstlineno))

    def co_positions(self):
        return iter(())

    def _varname_from_oparg(self, i):
        return LOCALSPLUS[i]


def host_ob(opc, op, tier):
    has_arg = op >= opc.HAVE_ARGUMENT
    real = oracles.opcode_dump(HOST)["opcode"]
    indexed = any(op in real[c] for c in ("hasconst", "hasname", "haslocal", "hasfree", "hascompare", "hasjrel", "hasjabs"))
    table_op = any(op in real[c] for c in ("hasconst", "hasname", "haslocal", "hasfree", "hascompare"))
    # a table-indexed operand is realised by the table lookup (one path per value): 0..15 covers the 3-6 entry marker tables
    # and the encoded (shifted) operands; everything else gets the full byte
    params = [("x", (0, (7 if table_op else 63) if has_arg else 0)), ("cf", (1, 100000)), ("fl", (1, 100000)), ("useline", (0, 1)),
              ("et", (0, 3))]
    forms = ["n1"]
    for i, f in enumerate(forms):
        params += c17.form_params("e%d" % i, f, 0)
    nop = _pick(opc, ["NOP"])

    def pre(**kw):
        items = table(kw)
        for e in L311.entries(items, kw["cf"]):
            if e[1] is not None and not (e[1] >= 0):
                return False
        return True

    def table(kw):
        items = []
        for i, f in enumerate(forms):
            items += c17.form_bytes("e%d" % i, f, kw)
        return items

    def body(**kw):
        import xdis.std as S
        x = kw["x"]
        items = [nop, 0, op, x if has_arg else 0]
        for _ in range(cache_entries(opc, op)):
            items += [0, 0]
        code_bytes = mkbytes(items)
        t = table(kw)
        first_line = kw["fl"] if kw["useline"] == 1 else None
        # one exception-table entry covering the first code unit, handler at code unit et (et = 3: no table): handler
        # targets are jump targets for dis
        et = kw["et"]
        exctable = b""
        for cand in (0, 1, 2):
            if et == cand:
                exctable = bytes([0x80, 1, cand, 0])
        ref_code = RefCode(items, code_bytes, t, kw["cf"], exctable)
        dis = oracles.load_dis(HOST)
        try:
            ref = list(dis.get_instructions(ref_code, first_line=first_line))
        except (IndexError, KeyError):
            return    # the host's dis rejects this operand
        ref_labels = list(dis.findlabels(code_bytes))
        ref_starts = list(dis.findlinestarts(ref_code))
        code = make_portable(HOST, co_code=code_bytes, co_consts=CONSTS, co_names=NAMES, co_varnames=VARNAMES, co_cellvars=CELLS,
                             co_freevars=FREES, co_firstlineno=kw["cf"], co_lnotab=mkbytes(t), co_exceptiontable=exctable)
        with no_text(opc):
            got = [i for i in S.get_instructions(code, first_line=first_line) if i.opname != "CACHE"]
            labels = list(S.findlabels(code_bytes))
            starts = list(S.findlinestarts(code))
        assert len(got) == len(ref), "instruction count %d vs dis %d" % (len(got), len(ref))
        for g, r in zip(got, ref):
            assert g.offset == r.offset and g.opcode == r.opcode and g.opname == r.opname, "stream: %r vs dis %r" % (g[:3], r[:3])
            assert _eq(g.arg, r.arg), "arg at %d: %r vs dis %r" % (r.offset, g.arg, r.arg)
            assert bool(g.is_jump_target) == bool(r.is_jump_target), "is_jump_target at %d" % r.offset
            assert _eq(g.starts_line, r.starts_line), "starts_line at %d: xdis.std %r, dis %r" % (r.offset, g.starts_line, r.starts_line)
            if r.opcode == op and indexed and not (hasattr(dis, "UNKNOWN") and r.argval is dis.UNKNOWN):
                assert _eq(g.argval, r.argval), "argval at %d: xdis.std %r, dis %r" % (r.offset, g.argval, r.argval)
        assert _list_eq(labels, ref_labels), "findlabels %r vs dis %r" % (labels, ref_labels)
        assert _list_eq(starts, ref_starts), "findlinestarts %r vs dis %r" % (starts, ref_starts)
        # the Bytecode class (its iteration, unlike get_instructions, also marks exception-handler targets), then the
        # module-level functions once more on the same code
        ref_bc = [r for r in dis.Bytecode(ref_code, first_line=first_line)]
        with no_text(opc):
            got_bc = [i for i in S.Bytecode(code, first_line=first_line) if i.opname != "CACHE"]
            labels2 = list(S.findlabels(code_bytes))
        ref_bc = [r for r in ref_bc if r.opname != "CACHE"]
        assert len(got_bc) == len(ref_bc), "Bytecode: instruction count %d vs dis %d" % (len(got_bc), len(ref_bc))
        for g, r in zip(got_bc, ref_bc):
            assert g.offset == r.offset and g.opcode == r.opcode, "Bytecode stream at %d" % r.offset
            assert bool(g.is_jump_target) == bool(r.is_jump_target), "Bytecode: is_jump_target at %d: xdis.std %r, dis %r" % (r.offset, g.is_jump_target, r.is_jump_target)
            assert _eq(g.starts_line, r.starts_line), "Bytecode: starts_line at %d" % r.offset
        assert _list_eq(labels2, ref_labels), "findlabels after Bytecode iteration %r vs dis %r" % (labels2, ref_labels)

    return Ob(id="C20.host.op%d" % op, prop="C20", params=params, body=body, pre=pre, funcs=FUNCS, region="host.%s" % opc.opname[op],
              skeleton="xdis.std on host-version code: NOP; %s x; caches" % opc.opname[op],
              bound="operand 0..63 (0..7 for table-indexed opcodes) within validity; co_firstlineno and first_line 1..10^5; a no-column location entry with symbolic line delta",
              timeout=60 if tier == "quick" else 200, oracle="R-src: the host's own dis.get_instructions/findlabels/findlinestarts")


def _eq(a, b):
    if a is None or b is None:
        return a is None and b is None
    if isinstance(a, tuple) or isinstance(b, tuple):
        return isinstance(a, tuple) and isinstance(b, tuple) and len(a) == len(b) and all(_eq(x, y) for x, y in zip(a, b))
    return a == b


def _list_eq(a, b):
    if len(a) != len(b):
        return False
    for x, y in zip(a, b):
        if not _eq(x, y):
            return False
    return True


def api_ob(vt, kind, tier):
    """make_std_api(vt) on version-vt code"""
    tabs = opc_tables()
    opc = tabs["opcode_%d%d" % vt]
    word = vt >= (3, 6)
    if isinstance(kind, int):
        op, kind = kind, "jop%d" % kind         # one obligation per jump opcode of the version
    else:
        op = {"jrel": _pick(opc, ["JUMP_FORWARD"]), "const": _pick(opc, ["LOAD_CONST"]), "name": _pick(opc, ["LOAD_NAME"]),
              "jabs": _pick(opc, ["JUMP_ABSOLUTE", "JUMP_BACKWARD", "POP_JUMP_IF_TRUE"])}[kind]
    nop = _pick(opc, ["NOP", "POP_TOP"])
    params = [("x", (0, 255)), ("shift", (0, 5))]
    use_src = vt >= (3, 6)
    fl = 7

    def body(x, shift):
        from xdis.std import make_std_api
        api = make_std_api(vt)
        if word and kind.startswith("jop"):
            # room in front for backward jumps
            items = [nop, 0] * 8 + [op, x]
            for _ in range(cache_entries(opc, op)):
                items += [0, 0]
            items += [nop, 0]
            jump_off, next_off = 16, 18
        elif word:
            items = [nop, 0, op, x]
            for _ in range(cache_entries(opc, op)):
                items += [0, 0]
            items += [nop, 0]
            jump_off, next_off = 2, 4
        else:
            items = [nop, op, x, 0, nop]
            jump_off, next_off = 1, 4
        code_bytes = mkbytes(items)
        kw = dict(co_code=code_bytes, co_consts=CONSTS, co_names=NAMES, co_varnames=VARNAMES, co_cellvars=CELLS, co_freevars=FREES,
                  co_firstlineno=fl)
        if vt >= (3, 11):
            kw["co_lnotab"] = bytes([0x80 | (13 << 3) | 7, 0x00])
            kw["co_exceptiontable"] = b""
        elif vt >= (3, 10):
            kw["co_lnotab"] = bytes([len(items), 0])
        elif vt < (3, 0):
            kw["co_lnotab"] = ""
        code = make_portable(vt, **kw)
        ref = None
        if use_src:
            try:
                ref = oracles.src_instructions(vt, code_bytes, varnames=VARNAMES, names=NAMES, constants=CONSTS, cells=CELLS + FREES,
                                               localsplus=LOCALSPLUS)
            except (IndexError, KeyError):
                return
            ref = [r for r in ref if r["opname"] != "CACHE"]
        elif kind in ("const", "name") and not (x < 3):
            return
        with no_text(opc):
            got = [i for i in api.get_instructions(code, first_line=fl + shift) if i.opname != "CACHE"]
            labels = list(api.findlabels(code_bytes))
        if use_src:
            assert len(got) == len(ref), "make_std_api(%r): %d instructions vs dis %d" % (vt, len(got), len(ref))
            for g, r in zip(got, ref):
                assert g.offset == r["offset"] and g.opcode == r["opcode"] and g.opname == r["opname"], \
                    "make_std_api(%r) stream: (%r, %r, %r) vs dis %d.%d (%r, %r, %r)" % (vt, g.offset, g.opcode, g.opname, vt[0], vt[1], r["offset"], r["opcode"], r["opname"])
                assert _eq(g.arg, r["arg"]), "arg"
                if r["offset"] == jump_off and kind != "const" and not (kind.startswith("jop") and not isinstance(r["argval"], int)):
                    assert _eq(g.argval, r["argval"]), "argval: %r vs dis %r" % (g.argval, r["argval"])
                assert bool(g.is_jump_target) == bool(r["is_jump_target"]), "is_jump_target at %d" % r["offset"]
            rl = list(oracles.load_dis(vt).findlabels(code_bytes))
            assert _list_eq(labels, rl), "findlabels %r vs dis %r" % (labels, rl)
        else:
            ops = [g.opcode for g in got]
            assert ops == [nop, op, nop], "make_std_api(%r) decoded opcodes %r, code has %r" % (vt, ops, [nop, op, nop])
            assert got[1].arg == x, "arg"
            if kind == "jrel":
                assert got[1].argval == next_off + x and _list_eq(labels, [next_off + x]), "jump target"
        first = got[0]
        assert first.starts_line == fl + shift, "first_line shift: starts_line %r, want %r" % (first.starts_line, fl + shift)

    return Ob(id="C20.api.%d%d.%s" % (vt[0], vt[1], kind), prop="C20", params=params, body=body, funcs=FUNCS,
              region="api.%d%d" % vt, skeleton="make_std_api(%d.%d) on %d.%d code: NOP; %s x; NOP" % (vt + vt + (opc.opname[op],)),
              bound="operand 0..255, first_line = co_firstlineno + shift, shift 0..5", timeout=60, setup=install_iter_unpack_model,
              oracle="R-src dis of %d.%d" % vt if use_src else "arithmetic reference")


def api_lines_ob(vt, n, tier):
    """make_std_api(vt).findlinestarts / starts_line (with the first_line shift) on version-vt code whose line table bytes are symbolic"""
    from props.common import SymCode
    from refmodels import lines310 as M310
    tabs = opc_tables()
    opc = tabs["opcode_%d%d" % vt]
    word = vt >= (3, 6)
    signed = vt >= (3, 6)
    nop = _pick(opc, ["NOP", "POP_TOP"])
    ninst = 8
    params = [("fl", (1, 100000)), ("shift", (0, 5))]
    for i in range(n):
        params += [("i%d" % i, (0, 255)), ("d%d" % i, (0, 255))]

    def tbl_of(kw):
        t = []
        for i in range(n):
            t += [kw["i%d" % i], kw["d%d" % i]]
        return t

    items = [nop, 0] * ninst if word else [nop] * ninst
    step = 2 if word else 1

    def pre(**kw):
        t = tbl_of(kw)
        if vt == (3, 10):
            if not (t[2 * n - 2] != 0):
                return False
            tot = 0
            for i in range(n):
                if t[2 * i] % 2:
                    return False
                tot = tot + t[2 * i]
            if not (tot == len(items)):
                return False
            for _s, _e, l in M310.ranges(t, kw["fl"]):
                if l is not None and not (l >= 1):
                    return False
            return True
        tot = 0
        line = kw["fl"]
        for i in range(n):
            tot = tot + t[2 * i]
            d = t[2 * i + 1]
            line = line + (d - 256 if (signed and d >= 128) else d)
            if not (line >= 1):
                return False
        return tot < len(items)

    def body(**kw):
        from xdis.std import make_std_api
        api = make_std_api(vt)
        t = tbl_of(kw)
        fl, shift = kw["fl"], kw["shift"]
        lnotab = mkbytes(t)
        fields = dict(co_code=bytes(items), co_firstlineno=fl, co_lnotab=lnotab if vt >= (3, 0) else lnotab)
        code = make_portable(vt, **fields)
        got = list(api.findlinestarts(code))
        if vt == (3, 10):
            ref = M310.linestarts(t, fl)
        else:
            ref_code = SymCode(co_lnotab=lnotab, co_firstlineno=fl, co_code=bytes(items))
            ref = list(oracles.load_dis27()["findlinestarts"](ref_code)) if vt == (2, 7) else list(oracles.load_dis(vt).findlinestarts(ref_code))
        ok = len(got) == len(ref)
        if ok:
            for (a0, a1), (b0, b1) in zip(got, ref):
                ok = ok and a0 == b0 and a1 == b1
        assert ok, "make_std_api(%r).findlinestarts: xdis %r, CPython %r" % (vt, got, ref)
        with no_text(opc):
            ins = list(api.get_instructions(code, first_line=fl + shift))
        assert len(ins) == ninst, "instruction count"
        for g in ins:
            want = None
            for off, line in ref:
                if off == g.offset:
                    want = line + shift
            assert (g.starts_line is None and want is None) or (g.starts_line is not None and want is not None and g.starts_line == want), \
                "starts_line at %r: xdis %r, line table of CPython %d.%d shifted by first_line gives %r" % (g.offset, g.starts_line, vt[0], vt[1], want)

    return Ob(id="C20.api.%d%d.lines.n%d" % (vt[0], vt[1], n), prop="C20", params=params, body=body, pre=pre, funcs=FUNCS,
              region="api.%d%d" % vt, skeleton="make_std_api(%d.%d) findlinestarts/starts_line: %d NOPs, line table of %d symbolic pairs" % (vt + (ninst, n)),
              bound="all table bytes symbolic (lines >= 1, table inside the code); first line 1..10^5; first_line shift 0..5", timeout=90,
              setup=install_iter_unpack_model, oracle=("R-model lines310 (validated)" if vt == (3, 10) else "R-src dis.findlinestarts of %d.%d" % vt))


def kinds_ob():
    def collect():
        import xdis.std as S

        def fn(a, b=2):
            for i in range(a):
                if i:
                    b += i
            return b

        class K:
            def m(self):
                return [q for q in range(3)]

        def gen():
            yield 1

        async def coro():
            return 1

        async def agen():
            yield 1

        def outer():
            z = 1
            return lambda: z
        c = coro()
        objs = {"function": fn, "method": K().m, "unbound-method": K.m, "generator": gen(), "coroutine": c, "async-generator": agen(),
                "class": K, "code": fn.__code__, "source-expr": "x + 1", "source-stmt": "x = 1\nfor i in y:\n    pass\n",
                "lambda-closure": outer(), "int": 3}
        bad = []
        n = 0
        for name, o in objs.items():
            for fl in (None, 10):
                n += 1
                try:
                    ref = [(i.opcode, i.opname, i.arg, i.offset, bool(i.is_jump_target), i.starts_line,
                            i.argval if not hasattr(i.argval, "co_code") else "code") for i in host_dis.get_instructions(o, first_line=fl)]
                    rerr = None
                except Exception as e:
                    ref, rerr = None, type(e).__name__
                try:
                    got = [(i.opcode, i.opname, i.arg, i.offset, bool(i.is_jump_target), i.starts_line,
                            i.argval if not hasattr(i.argval, "co_code") else "code") for i in S.get_instructions(o, first_line=fl)
                           if i.opname != "CACHE"]
                    gerr = None
                except Exception as e:
                    got, gerr = None, type(e).__name__
                if rerr or gerr:
                    if rerr != gerr:
                        bad.append("%s first_line=%r: dis raises %r, xdis.std raises %r" % (name, fl, rerr, gerr))
                    continue
                if got != ref:
                    d = [(g, r) for g, r in zip(got, ref) if g != r][:1]
                    bad.append("%s first_line=%r: first difference (xdis.std, dis) = %r; lengths %d/%d" % (name, fl, d, len(got), len(ref)))
                if name in ("function", "code"):
                    if list(S.findlabels(fn.__code__.co_code)) != list(host_dis.findlabels(fn.__code__.co_code)):
                        bad.append("findlabels differs on %s" % name)
                    if list(S.findlinestarts(fn.__code__)) != list(host_dis.findlinestarts(fn.__code__)):
                        bad.append("findlinestarts differs on %s" % name)
        c.close()
        return bad, n

    def q():
        bad, n = collect()
        if bad:
            return "refuted", "%d of %d object kinds differ" % (len(bad), n), {"which": bad[0][:60]}, 0, 0.0
        return "confirmed", "%d calls" % n, None, 0, 0.0

    def replay(which):
        bad, n = collect()
        return bad[0] if bad else None

    return Ob(id="C20.kinds", prop="C20", params=[], body=None, direct=q, replay=replay, funcs=FUNCS, region="kinds",
              skeleton="every object kind dis accepts, through xdis.std and the real host dis", bound="12 objects x first_line in (None, 10)",
              timeout=120, oracle="R-real: host dis (concrete)")


def tables_ob():
    def facts():
        import opcode as host_opcode
        import xdis.std as S
        bad = set()
        for o in range(256):
            if S.opname[o] != host_opcode.opname[o]:
                bad.add(o)
        for n, o in host_opcode.opmap.items():
            if o < 256 and S.opmap.get(n) != o:
                bad.add(o)
        for n, o in S.opmap.items():
            if 0 <= o < 256 and host_opcode.opmap.get(n) != o:
                bad.add(o)
        for a in ("hasconst", "hasname"):
            bad |= {o for o in set(getattr(S, a)) ^ set(getattr(host_opcode, a)) if o < 256}
        if S.HAVE_ARGUMENT != host_opcode.HAVE_ARGUMENT:
            bad.add(S.HAVE_ARGUMENT % 256)
        if S.EXTENDED_ARG != host_opcode.EXTENDED_ARG:
            bad.add(S.EXTENDED_ARG % 256)
        return bad

    def q():
        import z3
        from engine import smt
        bad = facts()
        k = z3.BitVec("op", 8)
        v, model, nq, st = smt.decide(smt.set_pred(k, bad), [k])
        return v, "", ({"op": model["op"]} if model else None), nq, st

    def replay(op):
        import opcode as host_opcode
        import xdis.std as S
        if op in facts():
            return "xdis.std tables differ from the host opcode module at opcode %d: %r vs %r" % (op, S.opname[op], host_opcode.opname[op])
        return None

    return Ob(id="C20.tables", prop="C20", params=[], body=None, direct=q, replay=replay, funcs=FUNCS, region="tables",
              skeleton="xdis.std.opmap/opname/hasconst/hasname/HAVE_ARGUMENT/EXTENDED_ARG == host opcode module",
              bound="256 opcodes", timeout=60, oracle="R-real host opcode module; direct SMT")


def generate(tier, seed):
    c17._validate(seed)
    oracles.load_dis(HOST)
    oracles.load_dis27()
    tabs = opc_tables()
    opc = tabs["opcode_%d%d" % HOST]
    obs = [kinds_ob(), tables_ob()]
    for op in defined_ops(opc):
        if opc.opname[op] in ("EXTENDED_ARG", "CACHE") or opc.opname[op].startswith("INSTRUMENTED"):
            continue
        obs.append(host_ob(opc, op, tier))
    for vt in ((2, 7), (3, 6), (3, 7), (3, 8), (3, 9), (3, 10), (3, 11), (3, 12), (3, 13)):
        if vt >= (3, 6):
            oracles.load_dis(vt)
        for kind in ("jrel", "const", "name", "jabs"):
            obs.append(api_ob(vt, kind, tier))
        if vt >= (3, 6):
            d = oracles.opcode_dump(vt)["opcode"]
            topc = tabs["opcode_%d%d" % vt]
            for jop in sorted(set(d["hasjrel"]) | set(d["hasjabs"]) | set(topc.hasjrel) | set(topc.hasjabs)):
                if jop < 256 and topc.opname[jop] in topc.opmap and topc.opname[jop] not in ("JUMP_FORWARD",):
                    obs.append(api_ob(vt, jop, tier))
        if vt <= (3, 10):
            for n in ((1, 2) if tier == "quick" else (1, 2, 3)):
                obs.append(api_lines_ob(vt, n, tier))
    return obs
