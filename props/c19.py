"""C19 - freeze() encodes a line table that decodes back to the same mapping."""
from engine import oracles
from engine.runner import Ob
from props.common import LenOnly, SymCode, install_iter_unpack_model, make_portable
from refmodels import lines310 as M310

LEVEL = "model_checking"
EXPLANATION = (
    "Bounded symbolic model checking of the real encoders followed by the real decoders: a portable code "
    "object of each class (Code2, Code3, Code38, Code310, built through the real constructors) is given a "
    "line table as a list (or dict) of (offset, line) pairs whose offset gaps, line gaps and first line are "
    "symbolic; freeze() is executed symbolically, then the frozen table is decoded by xdis's own "
    "findlinestarts and by the matching CPython's dis.findlinestarts source (2.7 / 3.6-3.9) or the validated "
    "3.10 model; both must give back the input mapping (consecutive equal lines merged) for all gap values.")
BOUNDS = {
    "quick": "k = 1..3 entries (first at offset 0); offset gaps 1..600; line gaps split by region: small "
             "(0..127), small with a decrease (-128..127, signed formats), big-positive (128..600), negative (-300..-1); "
             "first line 1..10^6; list form (dict form with concrete offsets for k=2)",
    "thorough": "k = 1..4 entries, same gap regions",
}
OUTSIDE = ["gaps > 600 (more iterations of the same continuation loops)", "3.11+ has no encoder",
           "mappings whose first offset is not 0"]
ASSUMPTIONS = [
    "CrossHair/z3 soundness", "struct.iter_unpack('=Bb') model for Code310.co_lines",
    "which signedness a Code3 object has is not recorded in the object: Code3 is exercised as 3.3 (unsigned) and 3.7 (signed)",
]
FUNCS = ["xdis.codetype.code15.Code15.encode_lineno_tab", "xdis.codetype.code15.Code15.freeze",
         "xdis.codetype.code30.Code3.encode_lineno_tab", "xdis.codetype.code30.Code3.freeze",
         "xdis.codetype.code310.Code310.encode_lineno_tab", "xdis.codetype.code310.Code310.freeze",
         "xdis.cross_dis.findlinestarts", "xdis.codetype.code310.Code310.co_lines"]

# (label, version for make_portable, signed?, CPython oracle)
TARGETS = [("code2-27", (2, 7), False, "27"), ("code3-33", (3, 3), False, "27"), ("code3-37", (3, 7), True, (3, 7)),
           ("code38-38", (3, 8), True, (3, 8)), ("code38-39", (3, 9), True, (3, 9)), ("code310", (3, 10), True, "m310")]

REGIONS = {"small": None, "bigpos": None, "neg": None}


def _pairs_eq(a, b):
    if len(a) != len(b):
        return False
    for (x0, x1), (y0, y1) in zip(a, b):
        if not (x0 == y0 and x1 == y1):
            return False
    return True


def make_ob(label, vt, signed, oracle, k, region, form, decoder, tier):
    params = [("fl", (1, 1000000)), ("l0", (0, 127))]
    for i in range(1, k):
        params.append(("g%d" % i, (1, 600)))
        if region == "small":
            params.append(("d%d" % i, (0, 127)))
        elif region == "smallneg":
            params.append(("d%d" % i, (-128, 127)))
        elif region == "bigpos":
            params.append(("d%d" % i, (0, 600)))
        else:
            params.append(("d%d" % i, (-300, 127)))

    def pre(**kw):
        if region == "small" or k == 1:
            return True
        ds = [kw["d%d" % i] for i in range(1, k)]
        if region == "smallneg":
            return any(d < 0 for d in ds)
        if region == "bigpos":
            return any(d >= 128 for d in ds)
        return any(d < 0 for d in ds)

    def mapping(kw):
        off = 0
        line = kw["fl"] + kw["l0"]
        m = [(0, line)]
        for i in range(1, k):
            off = off + (kw["g%d" % i] if form == "list" else 10 * i)  # dict keys must stay concrete (hashing)
            line = line + kw["d%d" % i]
            m.append((off, line))
        return m

    def lines_ok(kw):
        for _o, l in mapping(kw):
            if not (l >= 1):
                return False
        return True

    def body(**kw):
        import xdis.cross_dis as X
        if not lines_ok(kw):
            return
        m = mapping(kw)
        table = list(m) if form == "list" else dict(m)
        codelen = m[-1][0] + 2
        code = make_portable(vt, co_lnotab=b"", co_firstlineno=kw["fl"], co_code=b"")
        if hasattr(code, "co_linetable"):
            code.co_linetable = table
        else:
            code.co_lnotab = table
        code.co_code = LenOnly(codelen)
        try:
            code.freeze()
        except Exception as e:
            raise AssertionError("freeze-raises: %s: %s" % (type(e).__name__, e))
        want = []
        for o, l in m:
            if not want or not (want[-1][1] == l):
                want.append((o, l))
        tbl = code.co_linetable if hasattr(code, "co_linetable") else code.co_lnotab
        if decoder == "xdis":
            from props.common import opc_tables
            got = list(opc_tables()["opcode_%d%d" % vt].findlinestarts(code))
            assert _pairs_eq(got, want), "roundtrip-xdis: decoded %r, input %r (table %r)" % (got, want, tbl)
        else:
            if isinstance(tbl, str):
                raw = [ord(c) for c in tbl]
            else:
                raw = list(tbl)
            ref_code = SymCode(co_lnotab=tbl, co_firstlineno=kw["fl"], co_code=LenOnly(codelen))
            if oracle == "27":
                got = list(oracles.load_dis27()["findlinestarts"](ref_code))
            elif oracle == "m310":
                got = M310.linestarts(raw, kw["fl"])
            else:
                got = list(oracles.load_dis(oracle).findlinestarts(ref_code))
            assert _pairs_eq(got, want), "roundtrip-cpython: decoded %r, input %r (table %r)" % (got, want, tbl)

    reg = "%s.%s.%s" % (label, region, decoder)
    return Ob(id="C19.%s.k%d.%s.%s.%s" % (label, k, region, form, decoder), prop="C19", params=params, body=body,
              pre=pre, funcs=FUNCS, region=reg,
              skeleton="%s, %d entries, line gaps %s, %s form, decoded by %s" % (label, k, region, form, decoder),
              bound="offset gaps 1..600, line gaps per region, first line 1..10^6", timeout=90 if tier == "quick" else 300,
              oracle="input mapping; decoder = %s" % ("xdis findlinestarts" if decoder == "xdis" else "CPython %s" % (oracle,)),
              setup=install_iter_unpack_model)


def generate(tier, seed):
    oracles.load_dis27()
    for v in ((3, 7), (3, 8), (3, 9)):
        oracles.load_dis(v)
    obs = []
    kmax = 3 if tier == "quick" else 4
    for label, vt, signed, oracle in TARGETS:
        for k in range(1, kmax + 1):
            for region in ("small", "smallneg", "bigpos", "neg"):
                if k == 1 and region != "small":
                    continue
                if region in ("neg", "smallneg") and not signed:
                    continue  # the unsigned formats cannot represent decreasing lines (outside the statement)
                for decoder in ("xdis", "cpython"):
                    obs.append(make_ob(label, vt, signed, oracle, k, region, "list", decoder, tier))
        obs.append(make_ob(label, vt, signed, oracle, 2, "small", "dict", "xdis", tier))
    return obs
