"""C11 - corrupt or hostile bytecode files fail cleanly."""
import io
import os
import sys
import time

from engine.runner import Ob
from props.common import SymReader, mkbytes

LEVEL = "model_checking"
EXPLANATION = (
    "Bounded symbolic model checking of the whole portable load path on arbitrary bytes: a file is "
    "[known magic][header: every byte symbolic][type code: concrete, all dispatchable codes x FLAG_REF, plus one obligation "
    "whose type byte is symbolic over the undispatched values][k further bytes: every byte symbolic]; "
    "xdis.load.load_module_from_file_object (the function load_module delegates to after its size check) and the complete "
    "unmarshaller are executed symbolically; on every path the call must return a 7-tuple or raise ImportError, never any "
    "other exception, and must not call exec/eval/compile/__import__ or open a file for writing (names shadowed by raising "
    "monitors in the xdis modules). One instance per file length covers truncation at every point; symbolic bytes cover "
    "every mutation of the non-dispatch bytes. Truncated headers, every 16-bit magic (concretely), the PyPy '0' magic and the "
    "dropbox magic are separate obligations. Memory/time exhaustion by adversarial length fields is monitored by concrete "
    "resource probes (tracemalloc peak, wall time) on boundary length values - monitored, not proved.")
BOUNDS = {"quick": "single-byte mutations: 8 seed-chosen positions of a compiler-written 2.7, 3.8 and 3.11 file, all 256 values each; every prefix "
                   "of those files (concrete); magics 62211 (2.7), 3413 (3.8), 3495 (3.11); top-level type code: each of the 31 dispatchable codes with and "
                   "without FLAG_REF; k in {0,1,3,6} payload bytes after it; headers truncated at every length",
          "thorough": "every fifth position (+8 seed-chosen) of compiler-written 2.7/3.6/3.8/3.10/3.11/3.13 files; + magics 20121, 3230, 3379, 3531, 3571; k up to 10; container/code type codes with each "
                      "dispatchable first-child type code"}
OUTSIDE = ["files longer than the bound (more children of the same loops)",
           "the host-magic fast path (C marshal.loads, documented by CPython as unsafe on hostile data)",
           "wall-clock/memory limits are monitored on boundary values, not proved",
           "ImportError message text"]
ASSUMPTIONS = ["CrossHair/z3 soundness; struct model", "monitors shadow exec/eval/compile/__import__/open in xdis.load, "
               "xdis.unmarshal, xdis.magics, xdis.marsh namespaces only (direct calls)"]
FUNCS = ["xdis.load.load_module_from_file_object", "xdis.unmarshal.* (all readers)", "xdis.magics.magic2int",
         "xdis.magics.magic_int2tuple", "xdis.dropbox.decrypt25.fix_dropbox_pyc"]

HDR = {62211: 4, 20121: 4, 62061: 4, 3230: 8, 3379: 8, 3413: 12, 3495: 12, 3531: 12, 3571: 12}


class Forbidden(Exception):
    pass


TRIPS = []     # every trapped call is recorded as well as refused: the code under test may swallow the exception


def install_monitors():
    import xdis.load as LD
    import xdis.unmarshal as U
    import xdis.magics as M
    import xdis.marsh as MS

    def deny(name):
        def f(*a, **k):
            TRIPS.append("forbidden call of %s while loading a file" % name)
            raise Forbidden(TRIPS[-1])
        return f

    def guarded_open(file, mode="r", *a, **k):
        if any(c in mode for c in "wax+"):
            TRIPS.append("open(%r, %r) for writing while loading a file" % (file, mode))
            raise Forbidden(TRIPS[-1])
        return open(file, mode, *a, **k)
    for mod in (LD, U, M, MS):
        for name in ("exec", "eval", "compile", "__import__"):
            setattr(mod, name, deny(name))
        mod.open = guarded_open


def known_codes():
    import xdis.unmarshal as U
    return sorted(ord(c) for c in U.UNMARSHAL_DISPATCH_TABLE)


def run_load(data):
    import xdis.load as LD
    rd = SymReader(data)
    del TRIPS[:]
    try:
        res = LD.load_module_from_file_object(rd, filename="hostile.pyc", code_objects={}, get_code=True)
    except ImportError:
        if TRIPS:
            raise AssertionError(TRIPS[0])
        return "ImportError"
    if TRIPS:
        raise AssertionError(TRIPS[0])
    if not (isinstance(res, tuple) and len(res) == 7):
        raise AssertionError("returned %r instead of a 7-tuple" % (type(res),))
    return "tuple"


def payload_ob(magic, tcode, flag, k, tier, child=None):
    nh = HDR[magic]
    import xdis.magics as M
    params = [("h%d" % i, (0, 255)) for i in range(nh)] + [("p%d" % i, (0, 255)) for i in range(k)]
    nar = NARROW.get(chr(tcode)) if child is None else (NARROW.get(chr(child[-1])) if child else None)
    if nar is not None and nar[0] < k:
        params[nh + nar[0]] = ("p%d" % nar[0], (nar[1], nar[2]))
    mbytes = list(M.int2magic(magic))

    def items_of(kw):
        it = mbytes + [kw["h%d" % i] for i in range(nh)] + [tcode | (0x80 if flag else 0)]
        ps = [kw["p%d" % i] for i in range(k)]
        if child is not None:
            # container: concrete small size, then the child's type code, then symbolic bytes
            it += child + ps
        else:
            it += ps
        return it

    def pre(**kw):
        if nh == 12:   # defined PEP 552 flag words only (others: header semantics undefined, still must not crash: see hdr obs)
            return True
        return True

    def body(**kw):
        run_load(mkbytes(items_of(kw)))

    def replay(**kw):
        import xdis.load as LD
        data = bytes(items_of(kw))
        try:
            res = LD.load_module_from_file_object(io.BytesIO(data), filename="hostile.pyc", code_objects={}, get_code=True)
            if isinstance(res, tuple) and len(res) == 7:
                return None
            return "load of %r returned %r" % (data, res)
        except ImportError:
            return None
        except BaseException as e:
            return "load_module_from_file_object(%r) raises %s: %s (only ImportError is allowed)" % (data, type(e).__name__, str(e)[:150])

    cid = "" if child is None else ".child%s" % "-".join("%02x" % c for c in child)
    return Ob(id="C11.m%d.t%02x%s.k%d%s" % (magic, tcode, "R" if flag else "", k, cid), prop="C11", params=params,
              body=body, pre=pre, replay=replay, funcs=FUNCS, region="type-%s%s" % (chr(tcode) if 32 < tcode < 127 else "%02x" % tcode, "+ref" if flag else ""),
              skeleton="magic %d, type code %r%s%s, %d symbolic payload bytes, %d symbolic header bytes" % (
                  magic, chr(tcode), " | FLAG_REF" if flag else "", "" if child is None else " first child bytes %r" % (child,), k, nh),
              bound="every header and payload byte symbolic 0..255", timeout=60 if tier == "quick" else 200, setup=install_monitors,
              oracle="returns 7-tuple or raises ImportError; monitors")


def unknown_type_ob(magic, tier):
    nh = HDR[magic]
    import xdis.magics as M
    known = set(known_codes())
    params = [("t", (0, 255)), ("p0", (0, 255))]
    mbytes = list(M.int2magic(magic))

    def pre(t, p0):
        return not any(t == c or t == (c | 0x80) for c in known)

    def items_of(t, p0):
        return mbytes + [0] * nh + [t, p0]

    def body(t, p0):
        run_load(mkbytes(items_of(t, p0)))

    def replay(t, p0):
        import xdis.load as LD
        data = bytes(items_of(t, p0))
        try:
            LD.load_module_from_file_object(io.BytesIO(data), filename="hostile.pyc", code_objects={}, get_code=True)
            return None
        except ImportError:
            return None
        except BaseException as e:
            return "load(%r) raises %s: %s" % (data, type(e).__name__, str(e)[:150])

    return Ob(id="C11.m%d.unknown-type" % magic, prop="C11", params=params, body=body, pre=pre, replay=replay, funcs=FUNCS,
              region="unknown-type", skeleton="magic %d, symbolic undispatched type byte" % magic,
              bound="type byte over all undispatched values, 1 payload byte", timeout=200, setup=install_monitors,
              oracle="returns 7-tuple or raises ImportError")


def header_ob(magic, j, tier):
    """file = magic + j symbolic bytes (truncated header / header only)"""
    import xdis.magics as M
    params = [("h%d" % i, (0, 255)) for i in range(j)]
    mbytes = list(M.int2magic(magic))

    def body(**kw):
        run_load(mkbytes(mbytes + [kw["h%d" % i] for i in range(j)]))

    def replay(**kw):
        import xdis.load as LD
        data = bytes(mbytes + [kw["h%d" % i] for i in range(j)])
        try:
            LD.load_module_from_file_object(io.BytesIO(data), filename="hostile.pyc", code_objects={}, get_code=True)
            return None
        except ImportError:
            return None
        except BaseException as e:
            return "load(%r) raises %s: %s" % (data, type(e).__name__, str(e)[:150])

    return Ob(id="C11.m%d.hdr%d" % (magic, j), prop="C11", params=params, body=body, replay=replay, funcs=FUNCS,
              region="truncated-header", skeleton="magic %d + %d symbolic bytes, nothing else" % (magic, j),
              bound="all bytes symbolic", timeout=60, setup=install_monitors, oracle="returns 7-tuple or raises ImportError")


def magic_ob(kind):
    """concrete sweep over magic values (finite; auxiliary to the symbolic obligations)"""
    def q():
        import xdis.load as LD
        import xdis.magics as M
        bad = None
        n = 0
        devnull = open(os.devnull, "w")
        saved = sys.stdout, sys.stderr
        sys.stdout = sys.stderr = devnull
        try:
            if kind == "all16":
                rng = [(m & 255, m >> 8, 13, 10) for m in range(65536)]
            elif kind == "short":
                rng = [(), (0x03,), (0x03, 0xf3), (0x03, 0xf3, 13)]
            else:
                rng = [(ord("0"), b, c, d) for b in (0, 1, 255) for c in (0, 13) for d in (0, 10)]
            for mb in rng:
                for tail in (b"", b"\0" * 16, b"\xff" * 16):
                    n += 1
                    try:
                        LD.load_module_from_file_object(io.BytesIO(bytes(mb) + tail), filename="hostile.pyc", code_objects={})
                    except ImportError:
                        pass
                    except BaseException as e:
                        if bad is None:
                            bad = {"data": bytes(mb) + tail, "exc": type(e).__name__}
        finally:
            sys.stdout, sys.stderr = saved
            devnull.close()
        return ("refuted" if bad else "confirmed"), "files=%d" % n, ({"data": bad["data"]} if bad else None), 0, 0.0

    def replay(data):
        import xdis.load as LD
        try:
            LD.load_module_from_file_object(io.BytesIO(data), filename="hostile.pyc", code_objects={})
            return None
        except ImportError:
            return None
        except BaseException as e:
            return "load_module_from_file_object(%r) raises %s: %s (only ImportError is allowed)" % (data, type(e).__name__, str(e)[:150])

    return Ob(id="C11.magic-sweep.%s" % kind, prop="C11", params=[], body=None, direct=q, replay=replay, funcs=FUNCS,
              region="magic-%s" % kind, skeleton="concrete sweep: %s" % kind, bound={"all16": "all 65536 magic values x 3 tails",
              "short": "files shorter than the magic", "zero": "PyPy '0' magic variants"}[kind], timeout=300,
              oracle="returns 7-tuple or raises ImportError (concrete enumeration; auxiliary)")


LIMIT_S = 10.0
LIMIT_BYTES = 32 * 1024 * 1024


def _probe(data):
    """load `data` in a forked child under a hard wall-clock limit; returns (finished, peak_bytes, seconds)"""
    import pickle
    import signal
    r_fd, w_fd = os.pipe()
    pid = os.fork()
    if pid == 0:
        os.close(r_fd)
        out = (0, 0.0)
        try:
            import tracemalloc
            import xdis.load as LD
            devnull = open(os.devnull, "w")
            sys.stdout = sys.stderr = devnull
            tracemalloc.start()
            t0 = time.time()
            try:
                LD.load_module_from_file_object(io.BytesIO(data), filename="hostile.pyc", code_objects={})
            except BaseException:
                pass
            dt = time.time() - t0
            _cur, peak = tracemalloc.get_traced_memory()
            out = (peak, dt)
        finally:
            try:
                with os.fdopen(w_fd, "wb") as f:
                    pickle.dump(out, f)
            finally:
                os._exit(0)
    os.close(w_fd)
    t0 = time.time()
    done = False
    while time.time() - t0 < LIMIT_S + 2.0:
        p, _st = os.waitpid(pid, os.WNOHANG)
        if p == pid:
            done = True
            break
        time.sleep(0.02)
    if not done:
        os.kill(pid, signal.SIGKILL)
        os.waitpid(pid, 0)
        os.close(r_fd)
        return False, 0, time.time() - t0
    with os.fdopen(r_fd, "rb") as f:
        raw = f.read()
    peak, dt = pickle.loads(raw) if raw else (0, 0.0)
    return True, peak, dt


def _probe_verdict(data):
    finished, peak, dt = _probe(data)
    if not finished:
        return "loading the %d-byte file %r did not finish within %.0f s (killed)" % (len(data), data[:40], LIMIT_S)
    if peak > LIMIT_BYTES or dt > LIMIT_S / 2:
        return "loading the %d-byte file %r allocated %d bytes / took %.1f s" % (len(data), data[:40], peak, dt)
    return None


def resource_ob(magic, tcode):
    """adversarial length fields: concrete resource probes, each in its own process under a hard time limit (monitored, not proved)"""
    def files():
        import xdis.magics as M
        for ln in (0x7fffffff, 0x04000004, 0x00ffffff, 0x7f000004, 0xffffffff):
            yield M.int2magic(magic) + b"\0" * HDR[magic] + bytes([tcode]) + ln.to_bytes(4, "little") + b"N" * 8

    def q():
        n = 0
        for data in files():
            n += 1
            v = _probe_verdict(data)
            if v is not None:
                return "refuted", v[:300], {"data": data}, 0, 0.0
        return "confirmed", "probes=%d" % n, None, 0, 0.0

    def replay(data):
        return _probe_verdict(data)

    return Ob(id="C11.resource.m%d.t%02x" % (magic, tcode), prop="C11", params=[], body=None, direct=q, replay=replay,
              funcs=FUNCS, region="resource-%s" % chr(tcode), skeleton="adversarial length field after type code %r" % chr(tcode),
              bound="5 boundary length values", timeout=120, oracle="finishes within %.0f s, peak < 32 MiB (monitor, separate process)" % LIMIT_S)


def realfile_ob():
    """load_module(path) on real files that are not bytecode: python source renamed to .pyc, prose, binary junk, files with
    an unknown or a known magic followed by text - only ImportError may escape, and nothing is compiled, executed or imported"""
    SAMPLES = [
        ("source-renamed", b"import os\nprint('hello from a .py renamed to .pyc')\nx = [i for i in range(10)]\n" * 2),
        ("prose", b"This is not bytecode at all, just some prose that is long enough to pass the size test.\n" * 2),
        ("latin1-junk", bytes(range(160, 256)) * 2),
        ("zeros", b"\0" * 80),
        ("known-magic-then-source", b"U\r\r\n" + b"print('x')\n" * 10),
        ("crlf-magic-unknown", b"\x01\x02\r\n" + b"print('x')\n" * 10),
        ("shebang", b"#!/usr/bin/env python\n# -*- coding: utf-8 -*-\nimport sys\nsys.exit(0)\n" * 2),
    ]

    def verdict(name, data):
        import tempfile
        import xdis.load as LD
        install_monitors()
        d = tempfile.mkdtemp(prefix="c11file")
        path = os.path.join(d, "module.pyc")
        try:
            with open(path, "wb") as f:
                f.write(data)
            devnull = open(os.devnull, "w")
            saved = sys.stdout, sys.stderr
            sys.stdout = sys.stderr = devnull
            del TRIPS[:]
            try:
                try:
                    r = LD.load_module(path)
                    if TRIPS:
                        return TRIPS[0]
                    return None if isinstance(r, tuple) and len(r) == 7 else "returned %s" % type(r).__name__
                except ImportError:
                    return TRIPS[0] if TRIPS else None
                except Forbidden as e:
                    return str(e)
                except BaseException as e:
                    return "raises %s: %s" % (type(e).__name__, str(e)[:80])
            finally:
                sys.stdout, sys.stderr = saved
                devnull.close()
        finally:
            import shutil
            shutil.rmtree(d, True)

    def q():
        for name, data in SAMPLES:
            v = verdict(name, data)
            if v is not None:
                return "refuted", "%s: %s" % (name, v), {"sample": name}, 0, 0.0
        return "confirmed", "%d files" % len(SAMPLES), None, 0, 0.0

    def replay(sample):
        data = dict(SAMPLES)[sample]
        v = verdict(sample, data)
        return None if v is None else "load_module on a real file (%s, %d bytes starting %r): %s" % (sample, len(data), data[:24], v)

    return Ob(id="C11.realfile", prop="C11", params=[], body=None, direct=q, replay=replay, funcs=FUNCS + ["xdis.load.load_module", "xdis.load.is_python_source"],
              region="realfile", skeleton="load_module(path) on seven real non-bytecode files", bound="7 files (concrete)", timeout=120,
              oracle="7-tuple or ImportError only; compile/exec/eval/__import__/open-for-writing inside xdis.load, unmarshal, magics, marsh are trapped")


def depth_ob(magic):
    """adversarial nesting depth: containers nested far deeper than the interpreter's recursion limit (concrete probes)"""
    def files():
        import xdis.magics as M
        head = M.int2magic(magic) + b"\0" * HDR[magic]
        code_prefix = None
        for depth in (50, 400, 4000, 60000):
            for nm, unit in ((")", b")\x01"), ("(", b"(\x01\x00\x00\x00"), ("[", b"[\x01\x00\x00\x00"), ("{", b"{N"), ("<", b"<\x01\x00\x00\x00")):
                if nm == ")" and magic < 3250 or (nm == ")" and magic > 20000):
                    continue
                yield "%s x %d" % (nm, depth), head + unit * depth + b"N" + (b"0" * depth if nm == "{" else b"")

    def verdict(data):
        import xdis.load as LD
        devnull = open(os.devnull, "w")
        saved = sys.stdout, sys.stderr
        sys.stdout = sys.stderr = devnull
        try:
            try:
                r = LD.load_module_from_file_object(io.BytesIO(data), filename="hostile.pyc", code_objects={})
                return None if isinstance(r, tuple) and len(r) == 7 else "returned %s" % type(r).__name__
            except ImportError:
                return None
            except BaseException as e:
                return "raises %s" % type(e).__name__
        finally:
            sys.stdout, sys.stderr = saved
            devnull.close()

    def q():
        n = 0
        for label, data in files():
            n += 1
            v = verdict(data)
            if v is not None:
                return "refuted", "%s: %s" % (label, v), {"data": data}, 0, 0.0
        return "confirmed", "probes=%d" % n, None, 0, 0.0

    def replay(data):
        v = verdict(data)
        return None if v is None else "load_module on a %d-byte file starting %r (nested containers) %s instead of ImportError" % (len(data), data[:24], v)

    return Ob(id="C11.depth.m%d" % magic, prop="C11", params=[], body=None, direct=q, replay=replay, funcs=FUNCS, region="depth",
              skeleton="containers nested 50..60000 deep after magic %d" % magic, bound="4 depths x 5 container kinds (concrete)", timeout=300,
              oracle="7-tuple or ImportError only")


# symbolic bytes that the reader interprets as a *type code* or hands to a C-level text decoder are realised by
# CrossHair one value at a time (256 paths per byte): cap the number of symbolic bytes per top-level type code so that at
# most one such byte is symbolic (length/size/int payload bytes are unaffected and stay fully symbolic)
KCAP = {"(": 4, "[": 4, "<": 4, ">": 4, ")": 1, "{": 0, "u": 5, "t": 5, "a": 5, "A": 5, "s": 5, "z": 2, "Z": 2,
        "f": 2, "x": 2, "l": 5, "c": 6}
# the one symbolic content byte of text-like objects ranges over 4 values across the relevant boundary
NARROW = {"u": (4, 0x7e, 0x81), "t": (4, 0x7e, 0x81), "a": (4, 0x7e, 0x81), "A": (4, 0x7e, 0x81), "s": (4, 0x7e, 0x81),
          "z": (1, 0x7e, 0x81), "Z": (1, 0x7e, 0x81), "f": (1, 0x2f, 0x32), "x": (1, 0x2f, 0x32)}


def kcap(t, tier):
    return KCAP.get(chr(t), 8) + (0 if tier == "quick" else 0)


_BASE_SCRIPT = r'''
import sys, os, json, tempfile, py_compile, shutil
d = tempfile.mkdtemp()
src = os.path.join(d, "m.py")
open(src, "w").write("x = 1\ndef f(a, b=2):\n    return [a + b, 'k', 2.5, (None, x)]\n")
os.utime(src, (1000000000, 1000000000))
out = os.path.join(d, "m.pyc")
py_compile.compile(src, cfile=out, doraise=True)
data = open(out, "rb").read()
shutil.rmtree(d)
sys.stdout.write(json.dumps(list(bytearray(data))))
'''

_BASES = {}


def base_file(ver):
    """a small valid .pyc written by the real interpreter `ver` (deterministic: fixed source and mtime)"""
    from engine import oracles
    if ver not in _BASES:
        _BASES[ver] = bytes(oracles.run_in(ver, _BASE_SCRIPT))
    return _BASES[ver]


def mutation_ob(ver, pos, tier):
    """every value of the byte at `pos` of a valid file (single-byte mutation), the rest as the real compiler wrote it"""
    base = base_file(ver)

    def body(v):
        items = list(base)
        items[pos] = v
        run_load(mkbytes(items))

    def replay(v):
        import xdis.load as LD
        data = bytearray(base)
        data[pos] = v
        try:
            LD.load_module_from_file_object(io.BytesIO(bytes(data)), filename="hostile.pyc", code_objects={}, get_code=True)
            return None
        except ImportError:
            return None
        except BaseException as e:
            return "valid %d.%d file with byte %d changed from 0x%02x to 0x%02x: load raises %s: %s" % (
                ver[0], ver[1], pos, base[pos], v, type(e).__name__, str(e)[:120])

    return Ob(id="C11.mut.py%d%d.pos%03d" % (ver[0], ver[1], pos), prop="C11", params=[("v", (0, 255))], body=body, replay=replay,
              funcs=FUNCS, region="mutation", skeleton="valid %d.%d file (%d bytes), byte %d symbolic" % (ver[0], ver[1], len(base), pos),
              bound="all 256 values of one byte", timeout=240 if tier == "quick" else 400, setup=install_monitors,
              oracle="returns 7-tuple or raises ImportError")


def prefix_ob(ver):
    """every prefix of a valid file (concrete sweep; auxiliary)"""
    def q():
        import xdis.load as LD
        base = base_file(ver)
        bad = None
        devnull = open(os.devnull, "w")
        saved = sys.stdout, sys.stderr
        sys.stdout = sys.stderr = devnull
        try:
            for n in range(len(base)):
                try:
                    LD.load_module_from_file_object(io.BytesIO(base[:n]), filename="hostile.pyc", code_objects={})
                except ImportError:
                    pass
                except BaseException as e:
                    if bad is None:
                        bad = n
        finally:
            sys.stdout, sys.stderr = saved
            devnull.close()
        return ("refuted" if bad is not None else "confirmed"), "%d prefixes" % len(base), ({"n": bad} if bad is not None else None), 0, 0.0

    def replay(n):
        import xdis.load as LD
        base = base_file(ver)
        try:
            LD.load_module_from_file_object(io.BytesIO(base[:n]), filename="hostile.pyc", code_objects={})
            return None
        except ImportError:
            return None
        except BaseException as e:
            return "valid %d.%d file truncated to %d bytes: load raises %s: %s" % (ver[0], ver[1], n, type(e).__name__, str(e)[:120])

    return Ob(id="C11.prefix.py%d%d" % ver, prop="C11", params=[], body=None, direct=q, replay=replay, funcs=FUNCS, region="prefix",
              skeleton="every prefix of a valid %d.%d file" % ver, bound="all prefixes", timeout=120,
              oracle="returns 7-tuple or raises ImportError (concrete; auxiliary)")


def generate(tier, seed):
    obs = []
    magics = [62211, 3413, 3495] if tier == "quick" else [20121, 62211, 3230, 3379, 3413, 3495, 3531 - 0, 3571]
    import xdis.magics as M
    magics = [m for m in magics if m != M.PYTHON_MAGIC_INT]
    ks = (0, 1, 3, 6) if tier == "quick" else (0, 1, 2, 3, 4, 6, 8, 10)
    codes = known_codes()
    for m in magics:
        for t in codes:
            for flag in (False, True):
                for k in sorted({min(k, kcap(t, tier)) for k in ks}):
                    if tier == "quick" and m != 3413 and (flag or k in (1,)):
                        continue
                    obs.append(payload_ob(m, t, flag, k, tier))
        obs.append(unknown_type_ob(m, tier))
        for j in range(0, HDR[m] + 1):
            obs.append(header_ob(m, j, tier))
        # containers / code objects with each dispatchable first child
        for t, prefix in ((ord("("), [1, 0, 0, 0]), (ord(")"), [1]), (ord("["), [1, 0, 0, 0]), (ord("{"), []), (ord("<"), [1, 0, 0, 0])):
            for c in codes:
                if tier == "quick" and (m != 3413 or chr(c) not in "({[rRtcs0Nil"):
                    continue
                kk = min(4, kcap(c, tier))
                if t == ord("{"):
                    # a dict keeps reading key/value type codes until NULL: only the child's own fixed-size payload
                    # may be symbolic, or the next type code would be (256 paths per byte)
                    kk = min(kk, {"N": 0, "T": 0, "F": 0, ".": 0, "S": 0, "0": 0, "z": 1, "Z": 1, ")": 1, "f": 1, "{": 0}.get(chr(c), 4))
                obs.append(payload_ob(m, t, False, kk, tier, child=prefix + [c]))
    import random
    rnd = random.Random(seed)
    for ver in ((2, 7), (3, 8), (3, 11)) if tier == "quick" else ((2, 7), (3, 6), (3, 8), (3, 10), (3, 11), (3, 13)):
        base = base_file(ver)
        obs.append(prefix_ob(ver))
        if tier == "quick":
            positions = sorted(rnd.sample(range(4, len(base)), 8))
        else:
            # every fifth byte plus a seeded sample (a whole file costs ~40 min per version: one obligation per byte, 256
            # realised paths wherever the byte is read as a type code)
            positions = sorted(set(range(4, len(base), 5)) | set(rnd.sample(range(4, len(base)), 8)))
        for pos in positions:
            obs.append(mutation_ob(ver, pos, tier))
    for kind in ("all16", "short", "zero"):
        obs.append(magic_ob(kind))
    for t in "([<>{sutaAzZlf":
        obs.append(resource_ob(3413, ord(t)))
        obs.append(resource_ob(62211, ord(t)))
    for m in (3413, 62211, 3495, 3230):
        obs.append(depth_ob(m))
    obs.append(realfile_ob())
    return obs
