"""Marshal payload skeletons: concrete structure (type codes, flags, lengths, reference indices), symbolic
payload bytes.  A shape is a nested tuple; build() turns it into a list of byte items (ints or parameter
names), the parameter specs and preconditions."""


class B:
    """builder state"""

    def __init__(self, prefix="m"):
        self.items = []      # ints or str (param name)
        self.params = []     # (name, (lo, hi))
        self.pre = []        # callables kw -> bool
        self.n = 0
        self.prefix = prefix

    def sym(self, lo=0, hi=255):
        name = "%s%d" % (self.prefix, self.n)
        self.n += 1
        self.params.append((name, (lo, hi)))
        self.items.append(name)
        return name

    def raw(self, *bs):
        self.items.extend(bs)

    def i32(self, v):
        v &= 0xFFFFFFFF
        self.raw(v & 255, (v >> 8) & 255, (v >> 16) & 255, (v >> 24) & 255)

    def i16(self, v):
        v &= 0xFFFF
        self.raw(v & 255, (v >> 8) & 255)


def code_of(t, flag):
    return ord(t) | (0x80 if flag else 0)


def emit(b, shape):
    k = shape[0]
    if k in ("N", "T", "F", ".", "S", "0"):
        b.raw(ord(k))
    elif k == "i":
        b.raw(code_of("i", shape[1]))
        for _ in range(4):
            b.sym()
    elif k == "iconst":
        b.raw(code_of("i", shape[1]))
        b.i32(shape[2])
    elif k == "I":
        b.raw(code_of("I", shape[1]))
        for _ in range(8):
            b.sym()
    elif k == "l":
        _, flag, nd, neg = shape
        b.raw(code_of("l", flag))
        b.i32(-nd if neg else nd)
        for j in range(nd):
            b.sym()
            hi = b.sym(0, 127)
            if j == nd - 1:
                lo_name = b.items[-2]
                b.pre.append(lambda kw, lo_name=lo_name, hi=hi: kw[lo_name] + kw[hi] > 0)
    elif k in ("s", "u", "t", "a", "A"):
        _, flag, n = shape[:3]
        ascii_only = shape[3] if len(shape) > 3 else (k != "s")
        b.raw(code_of(k, flag))
        b.i32(n)
        for _ in range(n):
            # text decoding is C code (CrossHair realises the bytes, one path per value): small ranges that
            # still cross the interesting boundary (0x7f/0x80 for raw strings)
            if ascii_only:
                b.sym(0x41, 0x44)
            else:
                b.sym(0x7e, 0x81)
    elif k in ("z", "Z"):
        _, flag, n = shape
        b.raw(code_of(k, flag), n)
        for _ in range(n):
            b.sym(0x41, 0x44)
    elif k == "raw":   # ('raw', typecode, flag, bytes) - concrete payload after the type code
        _, t, flag, payload = shape
        b.raw(code_of(t, flag))
        b.raw(*payload)
    elif k == "str":   # concrete string object of type t with 4-byte length
        _, t, flag, payload = shape
        b.raw(code_of(t, flag))
        if t in "zZ":
            b.raw(len(payload))
        else:
            b.i32(len(payload))
        b.raw(*payload)
    elif k in ("r", "R"):
        b.raw(ord(k))
        b.i32(shape[1])
    elif k in ("(", "[", "<", ">"):
        _, flag, kids = shape
        b.raw(code_of(k, flag))
        b.i32(len(kids))
        for c in kids:
            emit(b, c)
    elif k == ")":
        _, flag, kids = shape
        b.raw(code_of(")", flag), len(kids))
        for c in kids:
            emit(b, c)
    elif k == "{":
        _, flag, pairs = shape
        b.raw(code_of("{", flag))
        for kk, vv in pairs:
            emit(b, kk)
            emit(b, vv)
        b.raw(ord("0"))
    elif k == "c":
        emit_code(b, shape)
    else:
        raise ValueError(shape)


def text(version, payload=b"", flag=False):
    """a concrete text object appropriate for the version"""
    if version >= (3, 0):
        return ("str", "u", flag, list(payload))
    return ("str", "s", flag, list(payload))


def emit_code(b, shape):
    """('c', flag, version, fields) - fields: dict name -> shape | int | 'sym' (symbolic scalar)"""
    _, flag, v, fields = shape
    b.raw(code_of("c", flag))
    wide = v >= (2, 3)

    def num(name):
        val = fields.get(name, 1 if name == "co_stacksize" else 0)  # 3.13 normalises stacksize 0 -> 1
        if val == "sym":
            for _ in range(4 if wide else 2):
                b.sym()
        elif wide:
            b.i32(val)
        else:
            b.i16(val)

    def obj(name, default):
        emit(b, fields.get(name, default))

    empty_t = ("(", False, [])
    code_default = ("str", "s", False, [])
    if v >= (1, 3):
        num("co_argcount")
    if v >= (3, 8):
        wide_save = wide
        num("co_posonlyargcount")
    if v >= (3, 0):
        num("co_kwonlyargcount")
    if (1, 3) <= v < (3, 11):
        num("co_nlocals")
    if v >= (1, 5):
        num("co_stacksize")
    if v >= (1, 3):
        num("co_flags")
    obj("co_code", code_default)
    obj("co_consts", empty_t)
    obj("co_names", empty_t)
    if v >= (3, 11):
        obj("co_localsplusnames", empty_t)
        obj("co_localspluskinds", ("str", "s", False, []))
        obj("co_filename", text(v, b"f"))
        obj("co_name", text(v, b"n"))
        obj("co_qualname", text(v, b"q"))
        num("co_firstlineno")
        obj("co_linetable", ("str", "s", False, []))
        obj("co_exceptiontable", ("str", "s", False, []))
    else:
        if v >= (1, 3):
            obj("co_varnames", empty_t)
        if v >= (2, 0):
            obj("co_freevars", empty_t)
            obj("co_cellvars", empty_t)
        obj("co_filename", text(v, b"f"))
        obj("co_name", text(v, b"n"))
        if v >= (1, 5):
            num("co_firstlineno")
            obj("co_lnotab", ("str", "s", False, []))


def build(shape, prefix="m"):
    b = B(prefix)
    emit(b, shape)
    return b


def realise(b, kw):
    """items with parameter names replaced by kw values"""
    return [kw[x] if isinstance(x, str) else x for x in b.items]


def count_refs(shape):
    """number of reference slots a shape allocates (for choosing valid 'r' indices)"""
    k = shape[0]
    n = 0
    if len(shape) > 1 and isinstance(shape[1], bool) and shape[1]:
        n = 1
    if k in ("(", ")", "[", "<", ">"):
        for c in shape[2]:
            n += count_refs(c)
    elif k == "{":
        for a, c in shape[2]:
            n += count_refs(a) + count_refs(c)
    elif k == "raw" or k == "str":
        n = 1 if shape[2] else 0
    elif k == "c":
        n = 1 if shape[1] else 0
        for v in shape[3].values():
            if isinstance(v, tuple):
                n += count_refs(v)
    return n
