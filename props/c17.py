"""C17 - 3.11+ exception and position tables decode as CPython decodes them."""
import random

from engine import oracles
from engine.runner import Ob
from props.common import byte_params, mkbytes
from refmodels import locations311 as L

LEVEL = "model_checking"
EXPLANATION = (
    "Bounded symbolic model checking of the real 3.11+ table parsers. Exception tables: every byte string "
    "of each length up to the bound (all bytes symbolic) is parsed by xdis.bytecode.parse_exception_table and "
    "by CPython 3.11/3.12/3.13's own dis._parse_exception_table source on the same symbolic bytes; entries must "
    "be equal. Location tables: the entry-form sequence is the concrete skeleton, every payload bit (length "
    "field, columns, varint digits of 1-3 bytes, sign bits) and the first line are symbolic; "
    "parse_linetable / parse_location_entries (Code311.co_lines/co_positions) / parse_positions are compared "
    "with a reference model of locations.md that is validated against the real 3.11, 3.12 and 3.13 "
    "interpreters on every run and again on every counterexample.")
BOUNDS = {
    "quick": "exception tables: all byte strings of length 0..6, plus complete entries with varints of 1-4 bytes (9 length patterns, all digits symbolic); location tables: 1 entry over 13 entry forms "
             "(short x2, one-line x3, no-column with 1/2/3-byte varint, long with 4 varint-length patterns, none) and "
             "2 entries over 8 forms; first line 1..10^6; 3-byte varints in the co_lines walker only in thorough",
    "thorough": "exception tables: length 0..8; location tables: 1-2 entries over all 13 forms, 3 entries over 8 forms (triples with two or more long/3-byte forms and pairs of two 3-byte forms left out: no verdict within 10 minutes)",
}
OUTSIDE = [
    "malformed location tables (truncated entries, continuation byte with bit 7 set, running line < 1)",
    "tables longer than the bound (both parsers are single pass; state = running line only)",
    "varints longer than 3 bytes",
]
ASSUMPTIONS = [
    "CrossHair/z3 soundness; bit-operation rewrite rules of engine/chplug.py",
    "R-model refmodels/locations311.py (validated against real CPython 3.11.7, 3.12.1, 3.13.0 at run time)",
    "R-src: dis._parse_exception_table from the installed interpreters",
]
FUNCS = ["xdis.bytecode._parse_varint", "xdis.bytecode.parse_exception_table",
         "xdis.codetype.code311.parse_location_entries", "xdis.codetype.code311.parse_linetable",
         "xdis.codetype.code311.parse_positions", "xdis.codetype.code311.Code311.co_lines",
         "xdis.codetype.code311.Code311.co_positions", "xdis.cross_dis.format_exception_table"]

# form -> (code, [payload spec]); payload spec: 'c7' = one byte 0..127, ('v', nbytes) = varint of nbytes
FORMS = {
    "s0": (0, ["c7"]), "s9": (9, ["c7"]),
    "o10": (10, ["c7", "c7"]), "o11": (11, ["c7", "c7"]), "o12": (12, ["c7", "c7"]),
    "n1": (13, [("v", 1)]), "n2": (13, [("v", 2)]), "n3": (13, [("v", 3)]),
    "l1111": (14, [("v", 1), ("v", 1), ("v", 1), ("v", 1)]),
    "l2121": (14, [("v", 2), ("v", 1), ("v", 2), ("v", 1)]),
    "l1212": (14, [("v", 1), ("v", 2), ("v", 1), ("v", 2)]),
    "l3111": (14, [("v", 3), ("v", 1), ("v", 1), ("v", 1)]),
    "x": (15, []),
}
FORMS8 = ["s0", "o11", "n1", "n2", "l1111", "l2121", "x", "s9"]


def form_params(prefix, form, lmax=7):
    code, spec = FORMS[form]
    ps = [(prefix + "L", (0, lmax))]
    i = 0
    for sp in spec:
        if sp == "c7":
            ps.append(("%sc%d" % (prefix, i), (0, 127)))
            i += 1
        else:
            for _ in range(sp[1]):
                ps.append(("%sv%d" % (prefix, i), (0, 63)))
                i += 1
    return ps


def form_bytes(prefix, form, kw):
    code, spec = FORMS[form]
    out = [128 + code * 8 + kw[prefix + "L"]]
    i = 0
    for sp in spec:
        if sp == "c7":
            out.append(kw["%sc%d" % (prefix, i)])
            i += 1
        else:
            n = sp[1]
            for j in range(n):
                cont = 64 if j < n - 1 else 0
                out.append(cont + kw["%sv%d" % (prefix, i)])
                i += 1
    return out


def _eq_opt(a, b):
    if a is None or b is None:
        return a is None and b is None
    return a == b


def _eq_tuples(xs, ys):
    if len(xs) != len(ys):
        return False
    for x, y in zip(xs, ys):
        if len(x) != len(y):
            return False
        for a, b in zip(x, y):
            if not _eq_opt(a, b):
                return False
    return True


def loc_ob(forms, which, tier):
    params = [("fl", (1, 1000000))]
    # the code-unit count of an entry (1..8) multiplies the paths of the per-unit expansion: full range for single
    # entries, 1..2 units per entry in multi-entry tables
    lmax = 7 if len(forms) == 1 and not any(f in ("n3", "l3111") for f in forms) else 1
    for i, f in enumerate(forms):
        params += form_params("e%d" % i, f, lmax)

    def table(kw):
        items = []
        for i, f in enumerate(forms):
            items += form_bytes("e%d" % i, f, kw)
        return items

    def pre(**kw):
        # well-formed: every running line number stays >= 1 (CPython reports negative lines as None)
        for e in L.entries(table(kw), kw["fl"]):
            if e[1] is not None and not (e[1] >= 1):
                return False
        return True

    def body(**kw):
        import xdis.codetype.code311 as C
        items = table(kw)
        tbl = mkbytes(items)
        fl = kw["fl"]
        if which == "lines":
            got = L.merge([tuple(t) for t in C.parse_linetable(tbl, fl)])
            ref = L.merge(L.lines(items, fl))
            assert _eq_tuples(got, ref), "co_lines: xdis %r, reference %r" % (got, ref)
            assert (not got) or got[0][0] == 0, "co_lines does not start at 0"
        elif which == "entries":
            got = []
            for n, sl, el, sc, ec in C.parse_location_entries(tbl, fl):
                for _ in range(n):
                    got.append((sl, el, sc, ec))
            ref = L.positions(items, fl)
            assert _eq_tuples(got, ref), "co_positions (location entries): xdis %r, reference %r" % (got, ref)
        else:
            got = [tuple(t) for t in C.parse_positions(tbl, fl)]
            ref = L.positions(items, fl)
            assert _eq_tuples(got, ref), "parse_positions: xdis %r, reference %r" % (got, ref)

    def replay(**kw):
        """real code + real interpreters 3.11, 3.12, 3.13"""
        import xdis.codetype.code311 as C
        items = table(kw)
        tbl = bytes(items)
        fl = kw["fl"]
        reals = [L.real(v, [(items, fl)])[0] for v in ((3, 11), (3, 12), (3, 13))]
        assert reals[0][0] == reals[1][0] == reals[2][0], "interpreters disagree among themselves"
        assert L.merge(reals[0][1]) == L.merge(reals[1][1]) == L.merge(reals[2][1]), "interpreters disagree among themselves"
        rp, rl = reals[0]
        if which == "lines":
            got = L.merge([tuple(t) for t in C.parse_linetable(tbl, fl)])
            rl = L.merge(rl)
            return None if got == rl else "co_lines(%r, firstlineno=%d): xdis %r, CPython %r" % (tbl, fl, got, rl)
        if which == "entries":
            got = []
            try:
                for n, sl, el, sc, ec in C.parse_location_entries(tbl, fl):
                    got += [(sl, el, sc, ec)] * n
            except Exception as e:
                return "parse_location_entries(%r) raises %r; CPython co_positions %r" % (tbl, e, rp)
            return None if got == rp else "Code311.co_positions(%r, firstlineno=%d) expanded: xdis %r, CPython %r" % (tbl, fl, got, rp)
        got = [tuple(t) for t in C.parse_positions(tbl, fl)]
        return None if got == rp else "parse_positions(%r, firstlineno=%d): xdis %r, CPython %r" % (tbl, fl, got, rp)

    region = None
    return Ob(id="C17.loc.%s.%s" % (which, "-".join(forms)), prop="C17", params=params, body=body, replay=replay, pre=pre,
              funcs=FUNCS, skeleton="location table forms=%s decoder=%s" % ("+".join(forms), which),
              bound="all payload bits symbolic; first line 1..10^6",
              timeout=(180 if "n3" in forms and which != "entries" else 60) if tier == "quick" else 400,
              oracle="R-model locations311 (validated vs real 3.11/3.12/3.13); replay on real interpreters",
              region=region)


def exc_ob(n, vt, tier):
    params = byte_params("b", n)

    def body(**kw):
        import xdis.bytecode as B
        items = [kw["b%d" % i] for i in range(n)]
        tbl = mkbytes(items)
        got = B.parse_exception_table(tbl)
        dis = oracles.load_dis(vt)

        class _Co:
            co_exceptiontable = tbl
        ref = dis._parse_exception_table(_Co)
        assert len(got) == len(ref), "entry count: xdis %d, CPython %d" % (len(got), len(ref))
        for g, r in zip(got, ref):
            assert g.start == r.start and g.end == r.end and g.target == r.target and g.depth == r.depth \
                and bool(g.lasti) == bool(r.lasti) and isinstance(g.lasti, bool), "entry: xdis %r, CPython %r" % (g, r)

    return Ob(id="C17.exc.len%d.py%d%d" % (n, vt[0], vt[1]), prop="C17", params=params, body=body, funcs=FUNCS,
              skeleton="exception table of %d bytes vs dis %d.%d" % (n, vt[0], vt[1]),
              bound="all %d bytes symbolic 0..255 (includes truncated tables)" % n,
              timeout=120 if tier == "quick" else 400,
              oracle="R-src dis._parse_exception_table of CPython %d.%d" % vt)


def exc_form_ob(lens, vt, tier):
    """one complete entry (start, length, target, depth|lasti) whose four varints have the given byte lengths:
    structure concrete (continuation bits), every 6-bit digit symbolic; followed by a second 1-1-1-1 entry"""
    params = []
    layout = []
    for fi, n in enumerate(list(lens) + [1, 1, 1, 1]):
        for j in range(n):
            nm = "f%d_%d" % (fi, j)
            params.append((nm, (0, 63)))
            layout.append((nm, 64 if j < n - 1 else 0))

    def body(**kw):
        import xdis.bytecode as B
        items = [cont + kw[nm] for nm, cont in layout]
        items[0] = items[0] + 128    # CPython sets bit 7 on the first byte of an entry; the parsers ignore it
        tbl = mkbytes(items)
        got = B.parse_exception_table(tbl)
        dis = oracles.load_dis(vt)

        class _Co:
            co_exceptiontable = tbl
        ref = dis._parse_exception_table(_Co)
        assert len(got) == len(ref) == 2, "entry count: xdis %d, CPython %d" % (len(got), len(ref))
        for g, r in zip(got, ref):
            assert g.start == r.start and g.end == r.end and g.target == r.target and g.depth == r.depth \
                and bool(g.lasti) == bool(r.lasti), "entry: xdis %r, CPython %r" % (tuple(g), tuple(r))

    return Ob(id="C17.excform.%s.py%d%d" % ("".join(str(n) for n in lens), vt[0], vt[1]), prop="C17", params=params, body=body,
              funcs=FUNCS, skeleton="exception table entry with varint byte lengths %r (+ a short entry) vs dis %d.%d" % (lens, vt[0], vt[1]),
              bound="every 6-bit varint digit symbolic", timeout=60 if tier == "quick" else 200,
              oracle="R-src dis._parse_exception_table of CPython %d.%d" % vt)


def fmt_ob(tier):
    params = [("s", (0, 1)), ("ln", (0, 1)), ("t", (0, 1)), ("d", (0, 1)), ("la", (0, 1))]

    def body(**kw):
        import xdis.cross_dis as X
        import xdis.bytecode as B

        class _BC:
            pass
        bc = _BC()
        start = kw["s"] * 300 + 2
        end = start + kw["ln"] * 40 + 2
        target = kw["t"] * 1000 + 4
        depth = kw["d"] * 12
        lasti = kw["la"] == 1
        bc.exception_entries = [B._ExceptionTableEntry(start, end, target, depth, lasti),
                                B._ExceptionTableEntry(0, 2, 2, 0, False)]
        txt = X.format_exception_table(bc, (3, 11))
        lines = ["ExceptionTable:"]
        for e in bc.exception_entries:
            la = " lasti" if e.lasti else ""
            lines.append("  %d to %d -> %d [%d]%s" % (e.start, e.end - 2, e.target, e.depth, la))
        assert txt == "\n".join(lines), "rendering: %r" % (txt,)

    return Ob(id="C17.fmt", prop="C17", params=params, body=body, funcs=FUNCS, opaque_repr=False,
              skeleton="ExceptionTable rendering, 2 entries", bound="5 binary choices of field magnitudes",
              timeout=60, oracle="R-model: the print loop of dis._disassemble_bytes (3.11/3.12)")


_VALIDATIONS = [0]


def evidence_extra():
    return {"oracle_validations": _VALIDATIONS[0]}


def _validate(seed):
    rnd = random.Random(seed)
    cases = []
    names = list(FORMS)
    for _ in range(150):
        forms = [rnd.choice(names) for _ in range(rnd.randint(1, 3))]
        kw = {}
        for i, f in enumerate(forms):
            for nme, (lo, hi) in form_params("e%d" % i, f):
                kw[nme] = rnd.choice([lo, hi, rnd.randint(lo, hi), rnd.randint(lo, hi)])
        items = []
        for i, f in enumerate(forms):
            items += form_bytes("e%d" % i, f, kw)
        fl = rnd.choice([1, 7, 300, 1000000])
        if all(e[1] is None or e[1] >= 1 for e in L.entries(items, fl)):
            cases.append((items, fl))
    _VALIDATIONS[0] = L.validate(cases)


def generate(tier, seed):
    _validate(seed)
    obs = []
    for vt in ((3, 11), (3, 12), (3, 13)):
        oracles.load_dis(vt)
    for n in range(0, 7 if tier == "quick" else 9):
        for vt in ((3, 11), (3, 12), (3, 13)):
            if tier == "quick" and n >= 5 and vt != (3, 12):
                continue
            obs.append(exc_ob(n, vt, tier))
    obs.append(fmt_ob(tier))
    if tier == "quick":
        lens_list = [(1, 1, 1, 1), (2, 1, 1, 1), (3, 1, 1, 1), (1, 3, 1, 1), (1, 1, 3, 1), (1, 1, 1, 3), (2, 2, 2, 2), (3, 3, 3, 3),
                     (4, 1, 1, 1)]
        vts = ((3, 12),)
    else:
        import itertools
        lens_list = list(itertools.product((1, 2, 3), repeat=4)) + [(4, 1, 1, 1), (1, 4, 1, 1), (1, 1, 4, 1), (4, 4, 4, 4)]
        vts = ((3, 11), (3, 12), (3, 13))
    for lens in lens_list:
        for vt in vts:
            obs.append(exc_form_ob(lens, vt, tier))
    names = list(FORMS)
    if tier == "quick":
        seqs = [[a] for a in names] + [[a, b] for a in FORMS8 for b in FORMS8]
    else:
        seqs = [[a] for a in names] + [[a, b] for a in names for b in names]
        seqs += [[a, b, c] for a in FORMS8 for b in FORMS8 for c in FORMS8]
    for fs in seqs:
        for which in ("lines", "entries", "positions"):
            if tier == "quick" and which in ("lines", "positions") and any(f in ("n3", "l3111") for f in fs) and fs != ["n3"]:
                continue  # 3-byte varints in the co_lines / positions walkers: the single-entry n3 obligations (24 s / 49 s, 180 s
                #           budget) are in the quick tier since seed C17-j (_scan_varint is not on the `entries` path); l3111 needs
                #           more than 240 s for these two decoders and stays in the thorough tier
            if tier == "quick" and len(fs) > 1 and all(f.startswith("l") for f in fs):
                continue  # two long-form entries: > 60 s of z3 time, thorough tier only
            heavy = sum(1 for f in fs if f.startswith("l") or f == "n3")
            if tier == "thorough" and len(fs) == 3 and heavy >= 2:
                continue  # measured: these run to the 10-minute limit without a verdict (83 of them in one pass); pairs keep the coverage
            if tier == "thorough" and len(fs) == 2 and all(f in ("n3", "l3111") for f in fs):
                continue
            obs.append(loc_ob(fs, which, tier))
    return obs
