"""C09 - opcode tables match the interpreter's own opcode module."""
from engine import oracles
from engine.runner import Ob
from props.common import has_interp, opc_tables, tshort

LEVEL = "model_checking"
EXPLANATION = (
    "E2 (direct SMT): every opcode table module of /repo/xdis/opcodes is imported (deterministic, no input) and its "
    "name/number maps, HAVE_ARGUMENT, seven category sets and EXTENDED_ARG data are rendered as bit-vector predicates "
    "over an 8-bit opcode key; the negated property (coherence clauses for every table; equality with the dumped "
    "`opcode` module of the real interpreter for 2.7 and 3.6-3.13) is handed to z3 (cross-checked by cvc5), which "
    "answers unsat (holds for all 256 opcode numbers) or returns the offending opcode, replayed concretely.")
BOUNDS = {"quick": "all tables x all 256 opcode numbers x all clauses", "thorough": "same (finite, complete)"}
OUTSIDE = ["versions without an installed interpreter get coherence only: a wrong-but-coherent row of e.g. the 2.4 "
           "table cannot be contradicted by anything in the sandbox",
           "pseudo-opcodes >= 256 of 3.12+ (not storable in a code byte)"]
ASSUMPTIONS = ["z3/cvc5 soundness", "the JSON dump of each real interpreter's opcode module (engine/oracles.py)"]
FUNCS = ["xdis.opcodes.base.init_opdata", "xdis.opcodes.base.def_op/name_op/jrel_op/jabs_op/... (table construction)",
         "xdis.opcodes.base.rm_op", "xdis.opcodes.base.finalize_opcodes", "xdis.opcodes.base.update_sets",
         "xdis.opcodes.opcode_*.py"]

CATS = [("hasjrel", "JREL_OPS"), ("hasjabs", "JABS_OPS"), ("hasconst", "CONST_OPS"), ("hasname", "NAME_OPS"),
        ("haslocal", "LOCAL_OPS"), ("hasfree", "FREE_OPS"), ("hascompare", "COMPARE_OPS")]


def _defined(opc):
    return {o for o in range(256) if not opc.opname[o].startswith("<")}


def _real_gap(opc, o, cat):
    """CPython's own table has the same gap (categorised opcode below HAVE_ARGUMENT or undefined)"""
    if not has_interp(opc):
        return False
    d = oracles.opcode_dump(opc.version_tuple[:2])["opcode"]
    return o in d[cat] and (o < d["HAVE_ARGUMENT"] or d["opname"][o].startswith("<"))


def coherence_ob(tname, opc):
    def facts():
        defined = _defined(opc)
        bij_bad = set()
        for o in defined:
            n = opc.opname[o].replace("+", "_")
            if opc.opmap.get(n) != o:
                bij_bad.add(o)
        for n, o in opc.opmap.items():
            if 0 <= o < 256 and opc.opname[o].replace("+", "_") != n:
                bij_bad.add(o)
        cat_bad = set()
        for cat, setname in CATS:
            for o in set(getattr(opc, cat)) | set(getattr(opc, setname)):
                if not (0 <= o < 256):
                    continue
                if set(getattr(opc, cat)) != set(getattr(opc, setname)):
                    cat_bad.add(o)
                if (o not in defined or o < opc.HAVE_ARGUMENT) and not _real_gap(opc, o, cat):
                    cat_bad.add(o)
        both = set(opc.hasjrel) & set(opc.hasjabs)
        ext_bad = set()
        if "EXTENDED_ARG" in opc.opmap:
            e = opc.opmap["EXTENDED_ARG"]
            shift = 16 if opc.version_tuple < (3, 6) else 8
            if getattr(opc, "EXTENDED_ARG", None) != e or getattr(opc, "EXTENDED_ARG_SHIFT", None) != shift \
                    or e < opc.HAVE_ARGUMENT:
                ext_bad.add(e)
        elif opc.version_tuple >= (2, 0):
            ext_bad.add(0)
        return defined, bij_bad, cat_bad, both, ext_bad

    def q():
        import z3
        from engine import smt
        defined, bij_bad, cat_bad, both, ext_bad = facts()
        k = z3.BitVec("op", 8)
        neg = z3.Or(smt.set_pred(k, bij_bad), smt.set_pred(k, cat_bad), smt.set_pred(k, both), smt.set_pred(k, ext_bad))
        v, model, nq, st = smt.decide(neg, [k])
        return v, "defined=%d" % len(defined), ({"op": model["op"]} if model else None), nq, st

    def replay(op):
        defined, bij_bad, cat_bad, both, ext_bad = facts()
        why = []
        if op in bij_bad:
            why.append("name<->number not a bijection (opname[%d]=%r, opmap gives %r)" % (op, opc.opname[op], opc.opmap.get(opc.opname[op])))
        if op in cat_bad:
            why.append("categorised but undefined / below HAVE_ARGUMENT (%d) / list and frozenset differ" % opc.HAVE_ARGUMENT)
        if op in both:
            why.append("both relative and absolute jump")
        if op in ext_bad:
            why.append("EXTENDED_ARG/shift wrong or missing")
        return ("%s opcode %d (%s): " % (tname, op, opc.opname[op]) + "; ".join(why)) if why else None

    return Ob(id="C09.coherence.%s" % tshort(tname), prop="C09", params=[], body=None, direct=q, replay=replay,
              funcs=FUNCS, region="coherence.%s" % tshort(tname),
              skeleton="table=%s coherence clauses over all 256 opcodes" % tname, bound="256 opcode numbers", timeout=120,
              oracle="internal coherence (+ real table gaps where an interpreter is installed)")


def vs_real_ob(tname, opc, what):
    vt = tuple(opc.version_tuple[:2])

    def diff():
        d = oracles.opcode_dump(vt)["opcode"]
        bad = set()
        if what == "names":
            for o in range(256):
                rn = d["opname"][o]
                xn = opc.opname[o]
                if rn != xn and not (rn.startswith("<") and xn.startswith("<")):
                    bad.add(o)
            rmap = {n.replace("+", "_"): o for n, o in d["opmap"].items()}
            for n, o in rmap.items():
                if o < 256 and opc.opmap.get(n) != o:
                    bad.add(o)
            for n, o in opc.opmap.items():
                if 0 <= o < 256 and rmap.get(n) != o:
                    bad.add(o)
            if d["HAVE_ARGUMENT"] != opc.HAVE_ARGUMENT:
                bad.add(min(d["HAVE_ARGUMENT"], opc.HAVE_ARGUMENT) % 256)
            if d.get("EXTENDED_ARG") != getattr(opc, "EXTENDED_ARG", None):
                bad.add(d.get("EXTENDED_ARG") or 0)
        else:
            real = set(d[what])  # incl. pseudo-ops >= 256 when both sides list them
            bad = (real ^ set(getattr(opc, what))) | (real ^ set(getattr(opc, dict(CATS)[what])))
        return bad, d

    def q():
        import z3
        from engine import smt
        bad, d = diff()
        k = z3.BitVec("op", 16)
        v, model, nq, st = smt.decide(smt.set_pred(k, bad), [k])
        return v, "", ({"op": model["op"]} if model else None), nq, st

    def replay(op):
        bad, d = diff()
        if op not in bad:
            return None
        if what == "names":
            return "%s opcode %d: xdis opname %r / HAVE_ARGUMENT %d / EXTENDED_ARG %r; CPython %d.%d opname %r / %d / %r" % (
                tname, op, opc.opname[op], opc.HAVE_ARGUMENT, getattr(opc, "EXTENDED_ARG", None), vt[0], vt[1],
                d["opname"][op], d["HAVE_ARGUMENT"], d.get("EXTENDED_ARG"))
        return "%s opcode %d (%s): in xdis %s: %r; in CPython %d.%d %s: %r" % (
            tname, op, opc.opname[op] if op < 256 else "pseudo", what, op in set(getattr(opc, what)), vt[0], vt[1], what, op in d[what])

    return Ob(id="C09.real.%s.%s" % (tshort(tname), what), prop="C09", params=[], body=None, direct=q, replay=replay,
              funcs=FUNCS, region="real.%s.%s" % (tshort(tname), what),
              skeleton="table=%s %s == CPython %d.%d opcode module" % (tname, what, vt[0], vt[1]),
              bound="256 opcode numbers", timeout=120, oracle="R-real opcode module dump")


def generate(tier, seed):
    oracles.preload()
    obs = []
    for tname, opc in opc_tables().items():
        obs.append(coherence_ob(tname, opc))
        if has_interp(opc):
            obs.append(vs_real_ob(tname, opc, "names"))
            for cat, _ in CATS:
                obs.append(vs_real_ob(tname, opc, cat))
    return obs
