"""C06 - pyc header is decoded per the file format of the bytecode's version."""
from engine.runner import Ob
from props.common import SymReader, mkbytes
from props import c08

LEVEL = "model_checking"
EXPLANATION = (
    "Bounded symbolic model checking of the real header parser: for each released-version magic the file "
    "[magic][header bytes][payload] is built with the magic concrete and every header byte symbolic (PEP 552 flag word, "
    "32-bit timestamp and size, 64-bit hash); xdis.load.load_module_from_file_object is executed symbolically on a "
    "position-tracking reader and its 7-tuple is compared, for all header values at once, with the format rule of that "
    "version (timestamp only < 3.3; timestamp+size 3.3-3.6; PEP 552 from 3.7: hash iff flag bit 0). With get_code=True a "
    "5-byte int object follows the header: the value returned as `co` and the final reader position show that the "
    "code object is read from the byte right after the header. Counterexamples are replayed through load_module on a "
    "real file and, for 3.7+, against importlib._bootstrap_external._classify_pyc of the real interpreter.")
BOUNDS = {"quick": "every final-release magic of CPython's registry (1.5-3.13) + 1.0-1.4 + the PyPy magics of xdis's table; "
                   "all timestamp/size/hash values; flag words with only PEP 552's two defined bits (all 4) - other bits "
                   "are rejected by CPython and outside the statement",
          "thorough": "same + every magic load_module accepts"}
OUTSIDE = ["interim magics xdis rejects by design; dropbox files",
           "the 3.3 pre-alpha magics 3190 and 3200: CPython added the size field at 3210, the statement says 3.3 has it - "
           "the format of these two is not determined by the statement (xdis: 3190 without, 3200 with size)", "flag words with undefined bits set (CPython raises ImportError)",
           "the host-magic fast path with symbolic payload (C marshal.loads): concrete payload there"]
ASSUMPTIONS = ["CrossHair/z3 soundness; struct model for '<I', '<Q', '<Hcc'", "header format rule: PEP 552, importlib._bootstrap_external"]
FUNCS = ["xdis.load.load_module_from_file_object", "xdis.load.is_pypy", "xdis.magics.magic2int", "xdis.magics.int2magic",
         "xdis.magics.magic_int2tuple", "xdis.unmarshal.load_code (int payload)"]


def header_kind(version, magic, pypy3):
    if version >= (3, 7):
        return "pep552"
    if version >= (3, 3):
        return "ts+size"
    return "ts"


def final_magics():
    import xdis.magics as M
    rows = c08.registry()
    out = {}
    for (a, b) in sorted({(r[0], r[1]) for r in rows}):
        m = c08.expected_magic(rows, a, b, 99)
        if m is not None and m in M.magicint2version:
            out[m] = (a, b)
    for m in (39170, 39171, 11913, 5892):
        if m in M.magicint2version:
            out[m] = tuple(M.magic_int2tuple(m)[:2])
    for m in (62211 + 7, 3180 + 7) + tuple(M.PYPY3_MAGICS):
        if m in M.magicint2version:
            out[m] = tuple(M.magic_int2tuple(m)[:2])
    return out


def u32(bs):
    return bs[0] + 256 * bs[1] + 65536 * bs[2] + 16777216 * bs[3]


def make_ob(magic, version, get_code, tier):
    import xdis.magics as M
    pypy3 = magic in M.PYPY3_MAGICS
    kind = header_kind(version, magic, pypy3)
    nhdr = {"ts": 4, "ts+size": 8, "pep552": 12}[kind]
    host = magic == M.PYTHON_MAGIC_INT
    # documented hack: PyPy 3.2 wrote the magic b'0\0\r\n' (48); xdis deliberately reports it as 3187 ("3.2pypy")
    report_magic = 3180 + 7 if magic == 48 else magic
    params = [("h%d" % i, (0, 255)) for i in range(nhdr)]
    if get_code and not host:
        params += [("p%d" % i, (0, 255)) for i in range(4)]

    def pre(**kw):
        if kind == "pep552":
            if not (kw["h0"] <= 3 and kw["h1"] == 0 and kw["h2"] == 0 and kw["h3"] == 0):
                return False
        return True

    def file_items(kw):
        items = list(M.int2magic(magic)) + [kw["h%d" % i] for i in range(nhdr)]
        if get_code:
            items += [ord("i")] + ([kw["p%d" % i] for i in range(4)] if not host else [7, 0, 0, 0])
        return items

    def expect(kw):
        h = [kw["h%d" % i] for i in range(nhdr)]
        ts = size = sip = None
        if kind == "ts":
            ts = u32(h[0:4])
        elif kind == "ts+size":
            ts, size = u32(h[0:4]), u32(h[4:8])
        else:
            hashed = (h[0] % 2) == 1
            if hashed:
                sip = u32(h[4:8]) + 4294967296 * u32(h[8:12])
            else:
                ts, size = u32(h[4:8]), u32(h[8:12])
        return ts, size, sip

    def check(res, kw, rd, items):
        vt, ts, mi, co, ispypy, size, sip = res
        ets, esize, esip = expect(kw)
        assert mi == report_magic, "magic_int %r" % (mi,)
        assert tuple(vt[:2]) == tuple(version), "version %r" % (vt,)
        for nm, got, want in (("timestamp", ts, ets), ("source_size", size, esize), ("sip_hash", sip, esip)):
            if want is None:
                assert got is None, "%s should be absent (None), got %r" % (nm, got)
            else:
                assert got is not None and got == want, "%s %r != %r" % (nm, got, want)
        if get_code:
            p = [kw["p%d" % i] for i in range(4)] if not host else [7, 0, 0, 0]
            want = u32(p)
            want = want - 4294967296 * (want // 2147483648)
            assert co is not None and co == want, "object after header: %r != %r (header length wrong?)" % (co, want)
            assert rd.pos == len(items), "reader at %r of %d" % (rd.pos, len(items))
        else:
            assert co is None, "co with get_code=False"
            assert rd.pos == 4 + nhdr, "reader at %r after header of %d" % (rd.pos, 4 + nhdr)

    def body(**kw):
        import xdis.load as LD
        items = file_items(kw)
        rd = SymReader(mkbytes(items))
        res = LD.load_module_from_file_object(rd, filename="x.pyc", get_code=get_code)
        check(res, kw, rd, items)

    def replay(**kw):
        import os
        import tempfile
        import xdis.load as LD
        items = file_items(kw)
        data = bytes(items)
        d = tempfile.mkdtemp(prefix="vcheck-c06-")
        path = os.path.join(d, "x.pyc")
        try:
            with open(path, "wb") as f:
                f.write(data + b"\0" * max(0, 50 - len(data)))   # load_module wants >= 50 bytes; never read when get_code=False
            try:
                if get_code:
                    import io
                    res = LD.load_module_from_file_object(io.BytesIO(data), filename=path, get_code=True)
                else:
                    res = LD.load_module(path, get_code=False)
            except Exception as e:
                return "load_module(%r) raises %s: %s" % (data, type(e).__name__, str(e)[:200])
        finally:
            import shutil
            shutil.rmtree(d, ignore_errors=True)
        ets, esize, esip = expect(kw)
        vt, ts, mi, co, ispypy, size, sip = res
        if (ts, size, sip) != (ets, esize, esip) or mi != report_magic or tuple(vt[:2]) != tuple(version):
            return "load_module(%r): (version %r, timestamp %r, size %r, sip_hash %r); the %d.%d format stores (timestamp %r, size %r, hash %r)" % (
                data, vt, ts, size, sip, version[0], version[1], ets, esize, esip)
        if get_code:
            p = [kw["p%d" % i] for i in range(4)] if not host else [7, 0, 0, 0]
            want = u32(p)
            want = want - 4294967296 * (want // 2147483648)
            if co != want:
                return "load_module(%r): object after header %r != %r" % (data, co, want)
        return None

    return Ob(id="C06.m%d.%s" % (magic, "code" if get_code else "hdr"), prop="C06", params=params, body=body, pre=pre,
              replay=replay, funcs=FUNCS, region="%s.%s" % (kind, "code" if get_code else "hdr"),
              skeleton="magic %d (%d.%d, %s header), get_code=%r" % (magic, version[0], version[1], kind, get_code),
              bound="all header bytes symbolic (flag word restricted to PEP 552's defined bits)", timeout=60,
              oracle="format rule (PEP 552 / importlib)")


def hdrtext_ob(magic, version, tier):
    """the header lines pydisasm -F header prints (show_module_header) carry exactly the fields the format stores"""
    import xdis.magics as M
    kind = header_kind(version, magic, False)
    nhdr = {"ts": 4, "ts+size": 8, "pep552": 12}[kind]
    params = [("flag", (0, 3)), ("a", (0, 3)), ("b", (0, 3)), ("c", (0, 3))]

    def fields(kw):
        ts = [kw["a"], 0x12, 0x34, 0x56]
        size = [kw["b"], 0xfe, 0x00, 0x80]
        if kind == "ts":
            return ts
        if kind == "ts+size":
            return ts + size
        if kw["flag"] % 2 == 1:
            return [kw["flag"], 0, 0, 0] + [kw["c"], 1, 2, 3, 4, 5, 6, 0xf7]
        return [kw["flag"], 0, 0, 0] + ts + size

    def run(kw, carrier):
        import io as _io
        import re
        import xdis.load as LD
        from xdis.disasm import show_module_header
        items = list(M.int2magic(magic)) + fields(kw)
        res = LD.load_module_from_file_object(SymReader(carrier(items)), filename="x.pyc", get_code=False)
        out = _io.StringIO()
        show_module_header(res[0], None, res[1], out=out, is_pypy=res[4], magic_int=res[2], source_size=res[5], sip_hash=res[6],
                           header=True, show_filename=False)
        text = out.getvalue()
        h = fields(kw)
        want_ts = want_size = want_hash = None
        if kind == "ts":
            want_ts = u32(h[0:4])
        elif kind == "ts+size":
            want_ts, want_size = u32(h[0:4]), u32(h[4:8])
        elif h[0] % 2 == 1:
            want_hash = u32(h[4:8]) + 4294967296 * u32(h[8:12])
        else:
            want_ts, want_size = u32(h[4:8]), u32(h[8:12])
        m_ts = re.search(r"^# Timestamp in code: (\d+)", text, re.M)
        m_sz = re.search(r"^# Source code size mod 2\*\*32: (\d+) bytes", text, re.M)
        m_h = re.search(r"^# SipHash:\s+0x([0-9a-f]+)", text, re.M)
        for nm, mm, want, base in (("timestamp", m_ts, want_ts, 10), ("source size", m_sz, want_size, 10), ("SipHash", m_h, want_hash, 16)):
            if want is None:
                if mm is not None:
                    return "header prints a %s line although the %d.%d format stores none: %r" % (nm, version[0], version[1], mm.group(0))
            else:
                if mm is None or int(mm.group(1), base) != want:
                    return "header %s line %r, file stores %r" % (nm, mm.group(0) if mm else None, want)
        if ("bytecode %d.%d" % version) not in text or ("(%d)" % (3187 if magic == 48 else magic)) not in text:
            return "header does not name version/magic: %r" % text[:120]
        return None

    def body(**kw):
        d = run(kw, mkbytes)
        assert d is None, d

    def replay(**kw):
        try:
            return run(kw, lambda it: bytes(it))
        except Exception as e:
            return "header rendering raises %s: %s" % (type(e).__name__, str(e)[:120])

    return Ob(id="C06.m%d.hdrtext" % magic, prop="C06", params=params, body=body, replay=replay, funcs=FUNCS + ["xdis.disasm.show_module_header"],
              opaque_repr=False, region="%s.hdrtext" % kind, skeleton="magic %d: header text of show_module_header" % magic,
              bound="flag word 0..3; low byte of timestamp/size/hash 0..3 (the text renders them through datetime/%d: realised)",
              timeout=90, oracle="format rule (PEP 552 / importlib)")


def generate(tier, seed):
    import io
    import os
    import sys
    import xdis.magics as M
    import xdis.load as LD
    ms = final_magics()
    if tier == "thorough":
        devnull = open(os.devnull, "w")
        saved = sys.stdout, sys.stderr
        sys.stdout = sys.stderr = devnull
        try:
            for m in sorted(M.magicint2version):
                if m in ms or m in (62135, 3393, 3190, 3200):   # 3190/3200: see OUTSIDE
                    continue
                try:
                    LD.load_module_from_file_object(io.BytesIO(M.int2magic(m) + b"\0" * 60), get_code=False)
                    ms[m] = tuple(M.magic_int2tuple(m)[:2])
                except Exception:
                    pass
        finally:
            sys.stdout, sys.stderr = saved
            devnull.close()
    obs = []
    for m, v in sorted(ms.items()):
        obs.append(make_ob(m, v, False, tier))
        obs.append(make_ob(m, v, True, tier))
    for m, v in sorted(ms.items()):
        if tier == "thorough" or m in (62211, 3230, 3379, 3394, 3413, 3495, 3571, 20121, 240):
            obs.append(hdrtext_ob(m, v, tier))
    return obs
