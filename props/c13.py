"""C13 - a bytecode file read and written back is the same program for its Python."""
from engine.runner import Ob
from props.common import SymReader, make_portable, mkbytes
from props import c10
from refmodels import marshal_ref as R

LEVEL = "model_checking"
EXPLANATION = (
    "Bounded symbolic model checking of the real writer followed by the real reader: a portable code object of the class "
    "for the target version (built through the real constructors) has symbolic scalar fields and symbolic constants "
    "(ints of any size, text by code-point plane, bytes, nested code); xdis.load.write_bytecode_file is executed "
    "symbolically with `open` rebound to an in-memory sink, the produced bytes are (i) read back by "
    "xdis.load.load_module_from_file_object and (ii) decoded by the reference transcription of the *target* version's "
    "marshal reader; both must give back the original field by field, unless the writer raised. Counterexamples are "
    "replayed by letting the real interpreter named by the magic marshal.loads the written file.")
BOUNDS = {"quick": "targets 2.7, 3.3, 3.6, 3.8, 3.10, 3.11, 3.12; skeletons scalars / int const / text const per plane / bytes const / "
                   "nested code / names; ints |x| < 2^40; timestamp and size over 32 bits",
          "thorough": "+ targets 2.5, 3.0, 3.4, 3.7, 3.9, 3.13; ints |x| < 2^70; two constants"}
OUTSIDE = ["the pipeline obligations read constants of the C10 skeleton shapes (incl. FLAG_REF sharing) inside a minimal code object",
           "'behaves identically' is taken to follow from field equality (bytecode semantics are not modelled)",
           "target versions without interpreter: reference model only", "lone surrogates in text constants written for Python-2 targets", "constants deeper than one container level"]
ASSUMPTIONS = ["`open` inside xdis.load rebound to an in-memory sink; datetime.now() not used (timestamp given)",
               "CrossHair/z3 soundness; struct model; refmodels/marshal_ref.py (validated)"]
FUNCS = ["xdis.load.write_bytecode_file", "xdis.marsh.dumps", "xdis.marsh._Marshaller.dump_code2", "xdis.marsh._Marshaller.dump_code3",
         "xdis.marsh._Marshaller.dump_*", "xdis.load.load_module_from_file_object", "xdis.unmarshal.load_code"]

TARGETS_Q = [(2, 7), (3, 3), (3, 6), (3, 8), (3, 10), (3, 11), (3, 12)]
TARGETS_T = TARGETS_Q + [(2, 5), (3, 0), (3, 4), (3, 7), (3, 9), (3, 13)]
MAGIC = dict(c10.MAGIC)
MAGIC.update({(3, 7): 3394, (3, 9): 3425})


class Sink:
    def __init__(self):
        self.chunks = []
        self.closed = False

    def write(self, b):
        self.chunks.append(b)

    def close(self):
        self.closed = True

    def items(self):
        out = []
        for c in self.chunks:
            out.extend(list(c))
        return out


def skeletons(v, tier):
    big = 40 if tier == "quick" else 70
    tx = lambda s: s
    out = [("scalars", {"co_argcount": "S", "co_kwonlyargcount": "S", "co_posonlyargcount": "S", "co_nlocals": "S",
                        "co_stacksize": "S", "co_flags": "S", "co_firstlineno": "S"}, None),
           ("const-int", {}, ("int", -(1 << big), 1 << big)),
           ("const-int32", {}, ("int", -(1 << 31), (1 << 31) - 1)),
           ("const-bytes", {}, ("bytes", 2)),
           ("const-text-ascii", {}, ("text", [(0x41, 0x44)])),
           ("const-text-latin1", {}, ("text", [(0x7e, 0x81)])),
           ("const-text-bmp", {}, ("text", [(0x7fe, 0x801)])),
           ("const-text-astral", {}, ("text", [(0xfffe, 0x10001)])),
           ("const-text-surrogate-hi", {}, ("text", [(0xd7fe, 0xd801)])),      # across the start of the surrogate block
           ("const-text-surrogate-lo", {}, ("text", [(0xdc7e, 0xdc81)])),      # unpaired low surrogates around U+DC80
           ("const-tuple", {}, ("tuple", [("int", -5, 5), ("const", None)])),
           ("const-frozenset", {}, ("frozenset", [("const", 1), ("const", "a")])),
           ("const-float", {}, ("const", 1.5)),
           # floats that need all 17 significant digits, the extremes, signed zero; a complex built from two of them
           ("const-floats17", {}, ("tuple", [("const", 0.1 + 0.2), ("const", 2 ** 0.5), ("const", 1 / 3), ("const", 5e-324),
                                             ("const", 1.7976931348623157e308), ("const", -0.0), ("const", 9007199254740993.0),
                                             ("const", complex(0.1 + 0.2, -(2 ** 0.5)))])),
           ("nested", {}, "nested"),
           ("names", {"co_names": ("n1", "n2"), "co_varnames": ("v1",), "co_filename": "file.py", "co_name": "fn"}, None)]
    if v < (3, 0):
        out = [o for o in out if o[0] != "const-bytes"]   # a bytes constant has no Python-2 counterpart distinct from str
    return out


def make_ob(v, name, fields, const, tier):
    from props import c14
    magic = MAGIC[v]
    vb = c14.VB()
    plan = None
    if const is not None and const != "nested":
        plan = vb.plan(const)
    params = list(vb.params)
    scal = [f for f, val in fields.items() if val == "S"]
    for f in scal:
        params.append((f, (0, (1 << 31) - 1)))
    params += [("ts", (1, (1 << 32) - 1)), ("fsize", (0, (1 << 32) - 1))]

    def build(kw):
        kwargs = {}
        for f, val in fields.items():
            kwargs[f] = kw[f] if val == "S" else val
        consts = [None]
        if plan is not None:
            consts = [c14.value_of(plan, kw), None]
        elif const == "nested":
            consts = [make_portable(v, co_name="inner", co_firstlineno=3, co_code=b"d\x00S\x00", co_consts=(1,)), None]
        kwargs["co_consts"] = tuple(consts)
        kwargs.setdefault("co_code", b"d\x00S\x00")
        kwargs.setdefault("co_stacksize", 1)
        if v < (3, 0):
            kwargs.setdefault("co_lnotab", "")   # as xdis's own loader represents a Python-2 line table
        return make_portable(v, **kwargs)

    def write(code, kw):
        import xdis.load as LD
        sink = Sink()
        saved = getattr(LD, "open", None)
        LD.open = lambda path, mode="r": sink
        try:
            LD.write_bytecode_file("out.pyc", code, magic, compilation_ts=kw["ts"], filesize=kw["fsize"])
        finally:
            if saved is None:
                del LD.open
            else:
                LD.open = saved
        items = sink.items()
        for x in items:
            # bytes(<ints>) range check: CrossHair's lazy bytes() model defers it; the real constructor raises at once
            if not (0 <= x <= 255):
                raise ValueError("bytes must be in range(0, 256)")
        return items

    def hdr_len():
        return 16 if v >= (3, 7) else (12 if v >= (3, 3) else 8)

    def body(**kw):
        import xdis.load as LD
        code = build(kw)
        try:
            items = write(code, kw)
        except Exception:
            return   # "when the writer cannot represent the input it raises": allowed
        data = mkbytes(items)
        # (ii) the target version's own reader (reference model)
        try:
            ref, end = R.load(items, hdr_len(), R.Ctx(v))
        except R.BadMarshal as e:
            raise AssertionError("target-rejects: CPython %d.%d marshal would reject the written file: %s" % (v[0], v[1], e))
        assert end == len(items), "trailing bytes"
        assert ref[0] == "code", "not a code object"
        d = R.match_code(code, ref[1], "", v >= (3, 0))
        assert d is None, "target-differs: " + str(d)
        # (i) xdis reads it back
        rd = SymReader(data)
        res = LD.load_module_from_file_object(rd, filename="out.pyc", code_objects={}, get_code=True)
        assert res[2] == magic, "magic"
        if v >= (3, 7):
            assert res[1] == kw["ts"] and res[5] == kw["fsize"], "header ts/size %r %r" % (res[1], res[5])
        elif v >= (3, 3):
            assert res[1] == kw["ts"] and res[5] == kw["fsize"], "header ts/size"
        else:
            assert res[1] == kw["ts"], "header ts"
        co2 = res[3]
        for f in ref[1]:
            attr = f
            if f == "co_lnotab" and not hasattr(code, f):
                attr = "co_linetable"
            if f in ("co_localsplusnames", "co_localspluskinds"):
                continue
            a, b = getattr(co2, attr), getattr(code, attr)
            assert _same(a, b), "xdis-readback: field %s: %r != %r" % (attr, a, b)

    def replay(**kw):
        code = build(kw)
        try:
            items = write(code, kw)
        except Exception:
            return None
        data = bytes(items)
        payload = data[hdr_len():]
        desc = None
        if v in c10.REAL:
            real = R.real_loads(v, [payload])[0]
            if "err" in real:
                return "written %d.%d file %r: the real marshal.loads of %d.%d rejects it: %s" % (v[0], v[1], data, v[0], v[1], real["err"])
            want = R.tag_json(code)
            if not R.json_eq(want, real["ok"], v < (3, 0)):
                diffs = [n for n in real["ok"][1] if n in want[1] and not R.json_eq(want[1][n], real["ok"][1][n], v < (3, 0))]
                return "written %d.%d file: CPython %d.%d loads fields %r as %r, original %r" % (
                    v[0], v[1], v[0], v[1], diffs, {n: real["ok"][1][n] for n in diffs}, {n: want[1][n] for n in diffs})
            desc = None
        else:
            try:
                ref, end = R.load(list(payload), 0, R.Ctx(v))
                d = R.match_code(code, ref[1], "", v >= (3, 0))
            except R.BadMarshal as e:
                d = "reference reader rejects the file: %s" % e
            if d:
                return "written %d.%d file %r differs from the original: %s [reference model only]" % (v[0], v[1], data, d)
        import io
        import xdis.load as LD
        try:
            res = LD.load_module_from_file_object(io.BytesIO(data), filename="out.pyc", code_objects={}, get_code=True)
        except Exception as e:
            return "xdis cannot read back the file it wrote (%r): %s" % (data, str(e)[:150])
        co2 = res[3]
        for f in ("co_argcount", "co_nlocals", "co_stacksize", "co_flags", "co_code", "co_consts", "co_names", "co_varnames",
                  "co_filename", "co_name", "co_firstlineno"):
            if hasattr(code, f) and not _same(getattr(co2, f, None), getattr(code, f)):
                return "xdis read-back of the written %d.%d file: %s = %r, original %r" % (v[0], v[1], f, getattr(co2, f, None), getattr(code, f))
        return desc

    return Ob(id="C13.%d%d.%s" % (v[0], v[1], name), prop="C13", params=params, body=body, replay=replay, funcs=FUNCS,
              region="%s.%s" % ("py2" if v < (3, 0) else ("py311+" if v >= (3, 11) else "py3"), name),
              skeleton="target %d.%d (magic %d), skeleton %s" % (v[0], v[1], magic, name),
              bound="scalars 0..2^31-1; constants per skeleton; timestamp/size 32-bit", timeout=120 if tier == "quick" else 400,
              setup=c10.stub_long, oracle="R-model reader of the target version + xdis read-back; replay on real interpreter")


def tagged_eq(a, b):
    """structural equality of two tagged reference values (refmodels.marshal_ref), code objects field by field"""
    if a[0] != b[0]:
        return False
    k = a[0]
    if k in ("none", "true", "false", "ellipsis", "stopiter", "null"):
        return True
    if k == "int":
        return a[1] == b[1]
    if k == "float":
        return R._feq(a[1], b[1])
    if k == "complex":
        return R._feq(a[1], b[1]) and R._feq(a[2], b[2])
    if k in ("bytes", "s2", "u2"):
        return R.seq_eq(a[1], b[1])
    if k == "str":
        return R.seq_eq(a[1], b[1])     # both UTF-8 payloads (ASCII forms are their own UTF-8)
    if k in ("tuple", "list"):
        return len(a[1]) == len(b[1]) and all(tagged_eq(x, y) for x, y in zip(a[1], b[1]))
    if k in ("set", "frozenset"):
        if len(a[1]) != len(b[1]):
            return False
        return all(any(tagged_eq(x, y) for y in b[1]) for x in a[1]) and all(any(tagged_eq(x, y) for y in a[1]) for x in b[1])
    if k == "dict":
        return len(a[1]) == len(b[1]) and all(tagged_eq(x[0], y[0]) and tagged_eq(x[1], y[1]) for x, y in zip(a[1], b[1]))
    if k == "code":
        fa, fb = a[1], b[1]
        for f in fa:
            if f in fb and not tagged_eq(fa[f], fb[f]):
                return False
        return True
    return False


def pipeline_ob(v, name, shape, tier):
    """bytes of a file of version v -> xdis load -> write_bytecode_file -> the target's reader: same program"""
    from props import mshapes as S
    magic = MAGIC[v]
    b = S.build(("c", False, v, {"co_consts": ("(", False, [shape, ("N",)]), "co_code": ("str", "s", False, [100, 0, 83, 0])}))
    params = list(b.params)
    pres = list(b.pre)
    hdr = 16 if v >= (3, 7) else (12 if v >= (3, 3) else 8)

    def pre(**kw):
        return all(p(kw) for p in pres)

    def pipeline(kw, carrier):
        import xdis.load as LD
        import xdis.unmarshal as U
        items = S.realise(b, kw)
        co = U.load_code(SymReader(carrier(items)), magic, False, {})
        sink = Sink()
        saved = getattr(LD, "open", None)
        LD.open = lambda path, mode="r": sink
        try:
            LD.write_bytecode_file("out.pyc", co, magic, compilation_ts=1, filesize=0)
        finally:
            if saved is None:
                del LD.open
            else:
                LD.open = saved
        out = sink.items()
        for x in out:
            if not (0 <= x <= 255):
                raise ValueError("bytes must be in range(0, 256)")
        return items, out

    def body(**kw):
        try:
            items, out = pipeline(kw, mkbytes)
        except Exception:
            return
        orig, _e = R.load(items, 0, R.Ctx(v))
        try:
            new, end = R.load(out, hdr, R.Ctx(v))
        except R.BadMarshal as e:
            raise AssertionError("target-rejects: %s" % e)
        assert end == len(out), "trailing bytes"
        assert tagged_eq(orig, new), "read-then-written file is a different program: %r -> %r" % (orig[1].get("co_consts"), new[1].get("co_consts"))

    def replay(**kw):
        try:
            items, out = pipeline(kw, lambda it: bytes(it))
        except Exception:
            return None
        data = bytes(items)
        if v in c10.REAL:
            ro = R.real_loads(v, [data])[0]
            rn = R.real_loads(v, [bytes(out)[hdr:]])[0]
            if "err" in ro:
                raise RuntimeError("real marshal rejects the skeleton: %s" % ro["err"])
            if "err" in rn:
                return "file written from %r: CPython %d.%d rejects it: %s" % (data, v[0], v[1], rn["err"])
            a, c = ro["ok"][1].get("co_consts"), rn["ok"][1].get("co_consts")
            return None if a == c else "CPython %d.%d loads co_consts %r from the original bytes and %r from the file xdis wrote after reading them" % (v[0], v[1], a, c)
        orig, _e = R.load(list(data), 0, R.Ctx(v))
        new, _e = R.load(list(out), hdr, R.Ctx(v))
        return None if tagged_eq(orig, new) else "read-then-written file differs: %r -> %r [reference model only]" % (orig[1].get("co_consts"), new[1].get("co_consts"))

    return Ob(id="C13.%d%d.pipeline.%s" % (v[0], v[1], name), prop="C13", params=params, body=body, pre=pre, replay=replay, funcs=FUNCS,
              region="pipeline.%s" % name.split(".")[0], skeleton="bytes (%s) -> load_code -> write_bytecode_file -> target reader, %d.%d" % (name, v[0], v[1]),
              bound="%d symbolic payload bytes" % len(params), timeout=120 if tier == "quick" else 400, setup=c10.stub_long,
              oracle="R-model reader on both files; replay with the real marshal.loads of the target")


def _same(a, b):
    from xdis.codetype.base import CodeBase
    from props import c14
    if isinstance(a, CodeBase) or isinstance(b, CodeBase):
        if not (isinstance(a, CodeBase) and isinstance(b, CodeBase)):
            return False
        for f in ("co_argcount", "co_code", "co_consts", "co_names", "co_name", "co_firstlineno"):
            if not _same(getattr(a, f, None), getattr(b, f, None)):
                return False
        return True
    if isinstance(a, tuple) and isinstance(b, tuple):
        return len(a) == len(b) and all(_same(x, y) for x, y in zip(a, b))
    return c14.same(a, b)


def generate(tier, seed):
    c10.validate_model(seed, [(3, 8)])
    obs = []
    for v in (TARGETS_Q if tier == "quick" else TARGETS_T):
        for name, fields, const in skeletons(v, tier):
            if "surrogate" in name and v < (3, 0):
                continue   # what a lone surrogate in a Python-3 str constant should become in a Python-2 file is not defined
            f2 = {k: val for k, val in fields.items()
                  if not (k == "co_posonlyargcount" and v < (3, 8)) and not (k == "co_kwonlyargcount" and v < (3, 0))
                  and not (k == "co_nlocals" and v >= (3, 11))}
            obs.append(make_ob(v, name, f2, const, tier))
    # read a file (incl. shared/back-referenced constants), write it back, compare what the target reads
    wanted = ("int32", "long2n", "uni1", "bytes1", "(2", ">2", "<1", "share-(", "share->", "share->-after-child", "share-<",
              "share-str-in-list", "share-two", "share-long", "bfloat-nan", "uni-euro", "uni-surrogate")
    for v in ((3, 8), (3, 10), (3, 6), (2, 7)) if tier == "quick" else (TARGETS_Q if tier == "quick" else [t for t in TARGETS_T if t < (3, 11)]):
        for name, shape in c10.shapes_for(v, tier):
            if tier == "thorough" or name in wanted:
                obs.append(pipeline_ob(v, name, shape, tier))
    return obs
