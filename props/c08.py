"""C08 - magic-number knowledge is coherent and agrees with CPython's registry."""
import io
import os
import re
import sys

from engine import oracles
from engine.runner import Ob
from props.common import mkbytes

LEVEL = "model_checking"
EXPLANATION = (
    "E1 (CrossHair/z3 on the real functions, struct modelled): magic2int(int2magic(i)) == i for a symbolic i over all "
    "65536 values and int2magic(magic2int(m)) == m for symbolic 4-byte magics in the image; sysinfo2magic for every "
    "release X.Y.Z the tables name (micro level symbolic) against CPython's registry. E2 (direct SMT over a 16-bit "
    "bit-vector key, tables materialised by running the real load/lookup functions on the current tree): every magic "
    "load_module accepts has a version tuple and an opcode table; every registry row maps to its major.minor; every "
    "release magic is known. The registry is parsed at run time from the comment block of the installed 3.13 "
    "importlib/_bootstrap_external.py; the nine installed interpreters give their real MAGIC_NUMBER.")
BOUNDS = {"quick": "all 65536 magic integers; all registry rows (1.5-3.13); micro level 0..30 per series; 9 interpreters",
          "thorough": "same (finite domain, complete)"}
OUTSIDE = ["releases not installed here are checked against the registry comment, not a binary",
           "PyPy/Graal/Jython/Pyston rows of the release-name table (no registry in the sandbox)"]
ASSUMPTIONS = ["struct.pack/unpack '<H', '<Hcc' model (engine/chplug.py)", "z3 (and cvc5 cross-check) soundness",
               "CPython 3.13's registry comment is correct for 1.5-3.13"]
FUNCS = ["xdis.magics.int2magic", "xdis.magics.magic2int", "xdis.magics.magic_int2tuple", "xdis.magics.py_str2tuple",
         "xdis.magics.sysinfo2magic", "xdis.magics (table construction)", "xdis.disasm.get_opcode",
         "xdis.load.load_module_from_file_object (acceptance)", "xdis.load.is_pypy", "xdis.op_imports.op_imports"]

_RANK = {"a": 0, "b": 1, "rc": 2, "c": 2, "": 3}


def registry():
    """[(major, minor, micro, rank, serial, magic)] from CPython 3.13's importlib comment block"""
    path = os.path.join(oracles.PYENV, "3.13.0", "lib", "python3.13", "importlib", "_bootstrap_external.py")
    rows = []
    with open(path) as f:
        for line in f:
            m = re.match(r"^#\s+Python (\d)\.(\d+)(?:\.(\d+))?(a|b|rc|c)?(\d+)?:?\s+(\d+)\b", line)
            if m:
                rows.append((int(m.group(1)), int(m.group(2)), int(m.group(3) or 0), _RANK[m.group(4) or ""],
                             int(m.group(5) or 0), int(m.group(6))))
    return rows


def expected_magic(rows, major, minor, micro):
    """magic written by final release major.minor.micro per the registry"""
    best = None
    for (a, b, c, rank, serial, magic) in rows:
        if (a, b) != (major, minor):
            continue
        if (c, rank, serial) <= (micro, 3, 0):
            best = magic  # rows are in chronological order
    return best


def rt_int_ob():
    def body(i):
        import xdis.magics as M
        m = M.int2magic(i)
        assert len(m) == 4, "len"
        assert M.magic2int(m) == i, "magic2int(int2magic(i)) != i"

    return Ob(id="C08.rt.int", prop="C08", params=[("i", (0, 65535))], body=body, funcs=FUNCS,
              skeleton="magic2int(int2magic(i))", bound="i in 0..65535 (all)", timeout=60, oracle="inverse law")


def rt_bytes_ob(special):
    def body(b0, b1):
        import xdis.magics as M
        v = b0 + 256 * b1
        tail = [0x99, 0] if special else [13, 10]
        m = mkbytes([b0, b1] + tail)
        got = M.int2magic(M.magic2int(m))
        assert len(got) == 4 and got[0] == b0 and got[1] == b1 and got[2] == tail[0] and got[3] == tail[1], \
            "int2magic(magic2int(m)) != m"

    def pre(b0, b1):
        v = b0 + 256 * b1
        isspec = (v == 39170) or (v == 39171)
        return isspec if special else (not isspec)

    return Ob(id="C08.rt.bytes.%s" % ("py10" if special else "crlf"), prop="C08", params=[("b0", (0, 255)), ("b1", (0, 255))],
              body=body, pre=pre, funcs=FUNCS, skeleton="int2magic(magic2int(m)), m in the image of int2magic",
              bound="all 4-byte magics of the image", timeout=60, oracle="inverse law")


def sysinfo_ob(rows, major, minor):
    def body(micro):
        import xdis.magics as M
        key = "%d.%d.%d" % (major, minor, micro)
        if key not in M.canonic_python_version:
            return
        got = M.sysinfo2magic((major, minor, micro, "final", 0))
        want = expected_magic(rows, major, minor, micro)
        assert want is not None, "no registry row"
        assert M.magic2int(got) == want, "sysinfo2magic(%s) gives %d, release writes %d" % (key, M.magic2int(got), want)

    return Ob(id="C08.sysinfo.%d.%d" % (major, minor), prop="C08", params=[("micro", (0, 30))], body=body, funcs=FUNCS,
              opaque_repr=False, struct_model=False,
              skeleton="sysinfo2magic((%d, %d, micro, 'final', 0))" % (major, minor), bound="micro in 0..30",
              timeout=120, oracle="CPython 3.13 registry comment")


def _materialise():
    import xdis.magics as M
    import xdis.load as LD
    from xdis.disasm import get_opcode
    acc, ver_ok, opc_ok, mm = set(), set(), set(), {}
    devnull = open(os.devnull, "w")
    saved = sys.stdout, sys.stderr
    sys.stdout = sys.stderr = devnull
    try:
        for m in range(65536):
            if m not in M.magicint2version:
                continue  # load_module rejects unknown magics through the same dict lookup (checked below)
            try:
                vt = M.magic_int2tuple(m)
                ver_ok.add(m)
                mm[m] = vt[0] * 100 + vt[1]
            except Exception:
                vt = None
            data = M.int2magic(m) + b"\0" * 60
            try:
                r = LD.load_module_from_file_object(io.BytesIO(data), get_code=False)
                acc.add(m)
                try:
                    get_opcode(r[0], r[4])
                    opc_ok.add(m)
                except Exception:
                    pass
            except ImportError:
                pass
            except Exception:
                pass
        # unknown magics must be rejected: sample all 65536 through the real entry point
        unknown_accepted = set()
        for m in range(65536):
            if m in M.magicint2version:
                continue
            try:
                LD.load_module_from_file_object(io.BytesIO(M.int2magic(m) + b"\0" * 60), get_code=False)
                unknown_accepted.add(m)
            except Exception:
                pass
    finally:
        sys.stdout, sys.stderr = saved
        devnull.close()
    return acc | unknown_accepted, ver_ok, opc_ok, mm, set(M.magicint2version)


def e2_obs(rows):
    obs = []

    def q_accept():
        import z3
        from engine import smt
        acc, ver_ok, opc_ok, mm, known = _materialise()
        k = z3.BitVec("magic", 16)
        neg = z3.And(smt.set_pred(k, acc), z3.Not(z3.And(smt.set_pred(k, ver_ok), smt.set_pred(k, opc_ok))))
        v, model, nq, st = smt.decide(neg, [k])
        cex = {"magic": model["magic"]} if model else None
        return v, "accepted magics=%d" % len(acc), cex, nq, st

    def r_accept(magic):
        import xdis.magics as M
        import xdis.load as LD
        from xdis.disasm import get_opcode
        try:
            r = LD.load_module_from_file_object(io.BytesIO(M.int2magic(magic) + b"\0" * 60), get_code=False)
        except Exception:
            return None
        try:
            get_opcode(r[0], r[4])
        except Exception as e:
            return "magic %d is accepted by load_module (version %r, pypy=%r) but get_opcode fails: %s" % (magic, r[0], r[4], e)
        return None

    obs.append(Ob(id="C08.e2.accepted-implies-table", prop="C08", params=[], body=None, direct=q_accept, replay=r_accept,
                  funcs=FUNCS, skeleton="forall 16-bit magic: accepted => version tuple and opcode table",
                  bound="all 65536 magics", timeout=300, oracle="internal coherence"))

    def q_registry():
        import z3
        from engine import smt
        acc, ver_ok, opc_ok, mm, known = _materialise()
        reg = {}
        for (a, b, c, rank, serial, magic) in rows:
            reg.setdefault(magic, a * 100 + b)
        k = z3.BitVec("magic", 16)
        neg = z3.And(smt.set_pred(k, reg.keys()), smt.set_pred(k, mm.keys()),
                     smt.map_fn(k, reg, 0, 16) != smt.map_fn(k, mm, 0, 16))
        v, model, nq, st = smt.decide(neg, [k])
        return v, "registry rows=%d" % len(rows), ({"magic": model["magic"]} if model else None), nq, st

    def r_registry(magic):
        import xdis.magics as M
        for (a, b, c, rank, serial, mg) in rows:
            if mg == magic:
                vt = M.magic_int2tuple(magic)
                if tuple(vt[:2]) != (a, b):
                    return "magic %d: CPython registry says %d.%d, xdis says %r" % (magic, a, b, vt)
                return None
        return None

    obs.append(Ob(id="C08.e2.registry-major-minor", prop="C08", params=[], body=None, direct=q_registry, replay=r_registry,
                  funcs=FUNCS, skeleton="forall registry magic known to xdis: same major.minor", bound="all rows",
                  timeout=300, oracle="CPython 3.13 registry comment"))

    def q_release():
        import z3
        from engine import smt
        acc, ver_ok, opc_ok, mm, known = _materialise()
        finals = set()
        series = sorted({(a, b) for (a, b, *_r) in rows})
        for (a, b) in series:
            fm = expected_magic(rows, a, b, 99)
            if fm is not None:
                finals.add(fm)
        k = z3.BitVec("magic", 16)
        neg = z3.And(smt.set_pred(k, finals), z3.Not(smt.set_pred(k, acc)))
        v, model, nq, st = smt.decide(neg, [k])
        return v, "release magics=%d" % len(finals), ({"magic": model["magic"]} if model else None), nq, st

    def r_release(magic):
        import xdis.magics as M
        import xdis.load as LD
        try:
            LD.load_module_from_file_object(io.BytesIO(M.int2magic(magic) + b"\0" * 60), get_code=False)
            return None
        except Exception as e:
            return "release magic %d (CPython registry) is not accepted by load_module: %s" % (magic, str(e)[:100])

    obs.append(Ob(id="C08.e2.release-magics-accepted", prop="C08", params=[], body=None, direct=q_release, replay=r_release,
                  funcs=FUNCS, skeleton="every final-release magic of the registry is accepted", bound="series 1.5..3.13",
                  timeout=300, oracle="CPython 3.13 registry comment"))

    def q_installed():
        import xdis.magics as M
        bad = None
        n = 0
        for ver in sorted(oracles.INTERPS):
            d = oracles.opcode_dump(ver)
            real = bytes(d["magic"])
            n += 1
            mi = M.magic2int(real)
            ok = mi in M.magicint2version and tuple(M.magic_int2tuple(mi)[:2]) == ver
            vi = tuple(d["version"]) + ("final", 0)
            try:
                ok = ok and M.sysinfo2magic(vi) == real
            except Exception:
                ok = False
            if not ok and bad is None:
                bad = {"major": ver[0], "minor": ver[1]}
        return ("refuted" if bad else "confirmed"), "interpreters=%d" % n, bad, n, 0.0

    def r_installed(major, minor):
        import xdis.magics as M
        d = oracles.opcode_dump((major, minor))
        real = bytes(d["magic"])
        vi = tuple(d["version"]) + ("final", 0)
        try:
            got = M.sysinfo2magic(vi)
        except Exception as e:
            return "sysinfo2magic(%r) raises %r; interpreter writes %r" % (vi, e, real)
        if got != real:
            return "sysinfo2magic(%r) = %r, interpreter writes %r" % (vi, got, real)
        if tuple(M.magic_int2tuple(M.magic2int(real))[:2]) != (major, minor):
            return "real magic %r maps to %r" % (real, M.magic_int2tuple(M.magic2int(real)))
        return None

    obs.append(Ob(id="C08.real.installed-interpreters", prop="C08", params=[], body=None, direct=q_installed,
                  replay=r_installed, funcs=FUNCS, skeleton="real MAGIC_NUMBER of each installed interpreter",
                  bound="2.7, 3.6-3.13", timeout=120, oracle="R-real"))
    return obs


def generate(tier, seed):
    rows = registry()
    assert len(rows) > 150, "registry parse failed"
    obs = [rt_int_ob(), rt_bytes_ob(False), rt_bytes_ob(True)]
    for (a, b) in sorted({(r[0], r[1]) for r in rows}):
        if (a, b) >= (1, 5):
            obs.append(sysinfo_ob(rows, a, b))
    oracles.preload()
    obs += e2_obs(rows)
    return obs
