"""shared helpers for the property modules"""
import importlib
import os
import pkgutil

from engine.chplug import mkbytes, SymReader  # noqa: F401


REPO = os.environ.get("XDIS_VERIF_REPO", "/repo")   # see vcheck.py


def opc_tables():
    """{module_name: opcode module} for every concrete opcode table in /repo/xdis/opcodes
    (regenerated from the working tree on every run)."""
    import xdis.opcodes as pkg
    out = {}
    for m in sorted(pkgutil.iter_modules(pkg.__path__), key=lambda m: m.name):
        if not m.name.startswith("opcode_") or m.name in ("opcode_1x", "opcode_2x", "opcode_3x"):
            continue
        mod = importlib.import_module("xdis.opcodes." + m.name)
        if hasattr(mod, "opname") and hasattr(mod, "version_tuple"):
            out[m.name] = mod
    return out


QUICK_TABLES = ["opcode_15", "opcode_27", "opcode_35", "opcode_36", "opcode_39", "opcode_310",
                "opcode_311", "opcode_312", "opcode_313", "opcode_27pypy", "opcode_38pypy"]


def tables_for(tier):
    t = opc_tables()
    if tier == "quick":
        return {k: v for k, v in t.items() if k in QUICK_TABLES}
    return t


def tshort(name):
    return name.replace("opcode_", "")


def defined_ops(opc):
    """opcode numbers the table defines (name is not the '<n>' placeholder)"""
    return [op for op in range(256) if not opc.opname[op].startswith("<")]


def has_interp(opc):
    from engine import oracles
    return (not getattr(opc, "is_pypy", False)) and tuple(opc.version_tuple[:2]) in oracles.INTERPS \
        and "graal" not in opc.__name__


def byte_params(prefix, n):
    return [("%s%d" % (prefix, i), (0, 255)) for i in range(n)]


def word_size(opc):
    return opc.version_tuple >= (3, 6)


def cache_entries(opc, op):
    """inline cache entries following `op`, as the *real* interpreter defines them (R-real dump)
    for 3.11+; 0 otherwise."""
    from engine import oracles
    vt = tuple(opc.version_tuple[:2])
    if vt < (3, 11) or vt not in oracles.INTERPS:
        return 0
    d = oracles.opcode_dump(vt)["opcode"]
    if vt >= (3, 13):
        return d["_inline_cache_entries"].get(opc.opname[op], 0)
    return d["_inline_cache_entries"][op]


def compare_valid_bound(opc):
    """exclusive upper bound of a COMPARE_OP operand for which cmp_op lookup is defined"""
    n = len(opc.cmp_op)
    if opc.python_version >= (3, 13):
        return n << 5
    if opc.python_version >= (3, 12):
        return n << 4
    return n


import contextlib


@contextlib.contextmanager
def no_text(opc):
    """stub the operand-text formatters (text is not the subject of the decode properties)"""
    import xdis.bytecode as B
    saved = getattr(opc, "opcode_arg_fmt", None)
    s1, s2 = B.format_CALL_FUNCTION, B.format_CALL_FUNCTION_EX
    if saved is not None:
        opc.opcode_arg_fmt = {}
    B.format_CALL_FUNCTION = lambda a: ""
    B.format_CALL_FUNCTION_EX = lambda a: ""
    try:
        yield
    finally:
        if saved is not None:
            opc.opcode_arg_fmt = saved
        B.format_CALL_FUNCTION, B.format_CALL_FUNCTION_EX = s1, s2


class SymCode:
    """duck-typed code object (xdis only needs attributes)"""

    def __init__(self, **kw):
        self.co_argcount = 0
        self.co_posonlyargcount = 0
        self.co_kwonlyargcount = 0
        self.co_nlocals = 0
        self.co_stacksize = 0
        self.co_flags = 0
        self.co_code = b""
        self.co_consts = ()
        self.co_names = ()
        self.co_varnames = ()
        self.co_freevars = ()
        self.co_cellvars = ()
        self.co_filename = "f.py"
        self.co_name = "f"
        self.co_firstlineno = 1
        for k, v in kw.items():
            setattr(self, k, v)


class LenOnly:
    """stands for a co_code of symbolic length where only len() is consulted"""

    def __init__(self, n):
        self.n = n

    def __len__(self):
        return self.n


def install_iter_unpack_model():
    """xdis.codetype.code310 calls struct.iter_unpack('=Bb', table) (C, would realise the bytes):
    replace by a pure-Python model for exactly that format (harness process only)."""
    import xdis.codetype.code310 as C310
    import struct as _struct

    class _Shim:
        error = _struct.error
        pack = staticmethod(_struct.pack)
        unpack = staticmethod(_struct.unpack)

        @staticmethod
        def iter_unpack(fmt, data):
            if fmt != "=Bb":
                return _struct.iter_unpack(fmt, bytes(data))
            if len(data) % 2:
                raise _struct.error("iterative unpacking requires a buffer of a multiple of 2 bytes")
            out = []
            for i in range(0, len(data), 2):
                d = data[i + 1]
                out.append((data[i], d - 256 if d >= 128 else d))
            return iter(out)
    C310.struct = _Shim


def make_portable(vt, **fields):
    """real portable code object of the class xdis uses for version vt, built through the real constructor"""
    from xdis.codetype import to_portable
    base = dict(co_argcount=0, co_posonlyargcount=0, co_kwonlyargcount=0, co_nlocals=0, co_stacksize=0,
                co_flags=0, co_code=b"", co_consts=(), co_names=(), co_varnames=(), co_filename="f.py",
                co_name="f", co_qualname="f", co_firstlineno=1, co_lnotab=b"", co_freevars=(), co_cellvars=(),
                co_exceptiontable=b"", version_triple=tuple(vt) + (0,) * (3 - len(vt)))
    base.update(fields)
    return to_portable(**base)
