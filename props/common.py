"""shared helpers for the property modules"""
import importlib
import os
import pkgutil

from engine.chplug import mkbytes, SymReader  # noqa: F401


def opc_tables():
    """{module_name: opcode module} for every concrete opcode table in /repo/xdis/opcodes
    (regenerated from the working tree on every run)."""
    import xdis.opcodes as pkg
    out = {}
    for m in sorted(pkgutil.iter_modules(pkg.__path__), key=lambda m: m.name):
        if not m.name.startswith("opcode_") or m.name in ("opcode_1x", "opcode_2x", "opcode_3x"):
            continue
        mod = importlib.import_module("xdis.opcodes." + m.name)
        if hasattr(mod, "opname") and hasattr(mod, "version_tuple"):
            out[m.name] = mod
    return out


QUICK_TABLES = ["opcode_15", "opcode_27", "opcode_35", "opcode_36", "opcode_39", "opcode_310",
                "opcode_311", "opcode_312", "opcode_313", "opcode_27pypy", "opcode_38pypy"]


def tables_for(tier):
    t = opc_tables()
    if tier == "quick":
        return {k: v for k, v in t.items() if k in QUICK_TABLES}
    return t


def tshort(name):
    return name.replace("opcode_", "")


def defined_ops(opc):
    """opcode numbers the table defines (name is not the '<n>' placeholder)"""
    return [op for op in range(256) if not opc.opname[op].startswith("<")]


def has_interp(opc):
    from engine import oracles
    return (not getattr(opc, "is_pypy", False)) and tuple(opc.version_tuple[:2]) in oracles.INTERPS \
        and "graal" not in opc.__name__


def byte_params(prefix, n):
    return [("%s%d" % (prefix, i), (0, 255)) for i in range(n)]


def word_size(opc):
    return opc.version_tuple >= (3, 6)


def cache_entries(opc, op):
    """inline cache entries following `op`, as the *real* interpreter defines them (R-real dump)
    for 3.11+; 0 otherwise."""
    from engine import oracles
    vt = tuple(opc.version_tuple[:2])
    if vt < (3, 11) or vt not in oracles.INTERPS:
        return 0
    d = oracles.opcode_dump(vt)["opcode"]
    if vt >= (3, 13):
        return d["_inline_cache_entries"].get(opc.opname[op], 0)
    return d["_inline_cache_entries"][op]


def compare_valid_bound(opc):
    """exclusive upper bound of a COMPARE_OP operand for which cmp_op lookup is defined"""
    n = len(opc.cmp_op)
    if opc.python_version >= (3, 13):
        return n << 5
    if opc.python_version >= (3, 12):
        return n << 4
    return n


import contextlib


@contextlib.contextmanager
def no_text(opc):
    """stub the operand-text formatters (text is not the subject of the decode properties)"""
    import xdis.bytecode as B
    saved = getattr(opc, "opcode_arg_fmt", None)
    s1, s2 = B.format_CALL_FUNCTION, B.format_CALL_FUNCTION_EX
    if saved is not None:
        opc.opcode_arg_fmt = {}
    B.format_CALL_FUNCTION = lambda a: ""
    B.format_CALL_FUNCTION_EX = lambda a: ""
    try:
        yield
    finally:
        if saved is not None:
            opc.opcode_arg_fmt = saved
        B.format_CALL_FUNCTION, B.format_CALL_FUNCTION_EX = s1, s2
