"""C02 - instruction stream decodes exactly as CPython's dis does (tiling, opcode, operand
folding with EXTENDED_ARG, cache slots)."""
from engine import oracles
from engine.runner import Ob
from props.common import (no_text, byte_params, cache_entries, compare_valid_bound, defined_ops, has_interp,
                          mkbytes, tables_for, tshort)

LEVEL = "model_checking"
EXPLANATION = (
    "Bounded symbolic model checking of the real decoder: for every opcode table x opcode x number of "
    "EXTENDED_ARG prefixes a code string [no-arg op][EXT]*k[op][cache slots][operand op] is built with "
    "concrete opcodes and fully symbolic operand bytes; xdis.bytecode.get_instructions_bytes (and "
    "everything it calls) is executed symbolically by CrossHair/z3 and its instruction list is compared, "
    "for all operand values at once, with (a) an arithmetic reference stream and (b) for 3.6-3.13 the "
    "installed CPython's own dis._unpack_opargs source run on the same symbolic bytes.")
BOUNDS = {
    "quick": "tables: representative set; opcodes: every defined opcode; k EXTENDED_ARG prefixes in 0..2 "
             "(word code) / 0..1 (pre-3.6); operand bytes fully symbolic (operand < 2^31); stream length <= 3 "
             "logical instructions + cache slots",
    "thorough": "all tables; every opcode number 0..255 that the table defines; k in 0..3 (word code) / 0..1 "
                "(pre-3.6); operand bytes fully symbolic (operand < 2^31)",
}
OUTSIDE = [
    "streams longer than 3 logical instructions (decoder keeps no state across logical instructions but the offset)",
    "operands >= 2^31 (CPython >= 3.10 wraps the accumulated extended arg; the compiler cannot emit them)",
    "EXTENDED_ARG in front of an operand-less opcode (ill-formed code)",
    "versions without an installed interpreter: arithmetic reference only",
    "argrepr/argval (C03, C12); opcode_arg_fmt formatters are stubbed out here",
]
ASSUMPTIONS = [
    "CrossHair/z3 soundness; bit-operation rewrite rules of engine/chplug.py",
    "opc.opcode_arg_fmt replaced by {} and bytecode.format_CALL_FUNCTION[_EX] by a constant during the call "
    "(operand text is not the subject here; C12 keeps them real)",
    "R-src: dis.py of the installed interpreter exec'd with a shim opcode module dumped from that interpreter",
    "cache slot counts for 3.11+ taken from the real interpreter's opcode._inline_cache_entries",
]
FUNCS = ["xdis.bytecode.get_instructions_bytes", "xdis.bytecode.get_logical_instruction_at_offset",
         "xdis.bytecode.next_offset", "xdis.cross_dis.instruction_size", "xdis.cross_dis.op_has_argument",
         "xdis.cross_dis.findlabels*", "xdis.wordcode.findlabels", "xdis.cross_dis.unpack_opargs_bytecode*",
         "xdis.wordcode.unpack_opargs_wordcode", "xdis.util.code2num", "xdis.instruction.Instruction"]


def _pick(opc, names):
    for n in names:
        if n in opc.opmap:
            return opc.opmap[n]
    return None


def takes_operand(opc, op):
    """operand-taking per the real interpreter's `hasarg` where it has one (3.12+), else the HAVE_ARGUMENT threshold"""
    if has_interp(opc):
        d = oracles.opcode_dump(opc.version_tuple[:2])["opcode"]
        if d.get("hasarg"):
            return op in d["hasarg"]
    return op >= opc.HAVE_ARGUMENT


def ref_stream(code, opc, caches_of):
    """arithmetic reference: (offset, op, arg) for every code unit incl. cache slots"""
    out = []
    word = opc.version_tuple >= (3, 6)
    ext_op = getattr(opc, "EXTENDED_ARG", None)
    i = 0
    n = len(code)
    ext = 0
    while i < n:
        op = code[i]
        if word:
            if takes_operand(opc, op):
                arg = code[i + 1] + ext
                ext = arg * 256 if op == ext_op else 0
            else:
                arg = None
                ext = 0
            out.append((i, op, arg))
            i += 2
            for _ in range(caches_of(op)):
                out.append((i, code[i], None))
                i += 2
        else:
            if op >= opc.HAVE_ARGUMENT:
                arg = code[i + 1] + code[i + 2] * 256 + ext
                ext = arg * 65536 if op == ext_op else 0
                out.append((i, op, arg))
                i += 3
            else:
                out.append((i, op, None))
                i += 1
    return out


def build_code(opc, op, k, ops_bytes, tail_byte):
    """[noarg][EXT]*k[op][caches][tail has-arg op]; returns (items, index_of_op_instruction)"""
    word = opc.version_tuple >= (3, 6)
    noarg = _pick(opc, ["NOP", "POP_TOP", "ROT_TWO", "STOP_CODE"])
    tail = _pick(opc, ["LOAD_CONST", "LOAD_FAST", "LOAD_NAME"])
    ext_op = getattr(opc, "EXTENDED_ARG", None)
    items = []
    if word:
        items += [noarg, 0]
        for j in range(k):
            items += [ext_op, ops_bytes[j]]
        items += [op, ops_bytes[k]]
        for _ in range(cache_entries(opc, op)):
            items += [0, 0]
        items += [tail, tail_byte]
        for _ in range(cache_entries(opc, tail)):
            items += [0, 0]
    else:
        items += [noarg]
        for j in range(k):
            items += [ext_op, ops_bytes[2 * j], ops_bytes[2 * j + 1]]
        if op >= opc.HAVE_ARGUMENT:
            items += [op, ops_bytes[2 * k], ops_bytes[2 * k + 1]]
        else:
            items += [op]
        items += [tail, tail_byte, 0]
    return items


def make_ob(tname, opc, op, k, tier):
    word = opc.version_tuple >= (3, 6)
    has_arg = op >= opc.HAVE_ARGUMENT
    nbytes = (k + 1) if word else (2 * (k + 1) if has_arg else 0)
    params = byte_params("b", nbytes) + [("t", (0, 255))]
    use_src = has_interp(opc) and opc.version_tuple >= (3, 6)
    vt = tuple(opc.version_tuple[:2])
    cmp_bound = compare_valid_bound(opc) if op in opc.COMPARE_OPS else None
    real_names = oracles.opcode_dump(vt)["opcode"]["opname"] if has_interp(opc) else None
    ext_op = getattr(opc, "EXTENDED_ARG", None)
    # pre-3.6 call-like opcodes render their two operand bytes with "%d" inside the decoder; CrossHair
    # realises %d operands (one path per value), so those two bytes get a reduced range (stated bound)
    pct_d = (not word) and has_arg and op in opc.NARGS_OPS and \
        opc.opname[op] not in ("RAISE_VARARGS", "DUP_TOPX", "MAKE_FUNCTION")

    def pre(**kw):
        bs = [kw["b%d" % i] for i in range(nbytes)]
        if word and (k + (1 if op == ext_op else 0)) >= 3:
            # the folded operand (of the opcode under test, or of the opcode after it when the opcode under test is itself
            # EXTENDED_ARG) stays below 2^31: beyond that CPython's dis wraps to a negative number and xdis does not
            tot = 0
            for b in bs:
                tot = tot * 256 + b
            if op == ext_op:
                tot = tot * 256
            if not (tot < (1 << 31)):
                return False
        if pct_d and not (bs[nbytes - 2] <= 15 and bs[nbytes - 1] <= 3):
            return False
        if (not word) and k == 1 and has_arg and not (bs[1] < 128):
            return False
        if cmp_bound is not None:
            tot = 0
            if word:
                for b in bs:
                    tot = tot * 256 + b
            else:
                for j in range(0, nbytes, 2):
                    tot = tot * 65536 + bs[j] + 256 * bs[j + 1]
            if not (tot < cmp_bound):
                return False
        return True

    def body(**kw):
        import xdis.bytecode as B
        bs = [kw["b%d" % i] for i in range(nbytes)]
        items = build_code(opc, op, k, bs, kw["t"])
        code = mkbytes(items)
        with no_text(opc):
            insts = list(B.get_instructions_bytes(code, opc))
        ref = ref_stream(items, opc, lambda o: cache_entries(opc, o))
        assert len(insts) == len(ref), "count: xdis %d instructions, reference %d" % (len(insts), len(ref))
        pos = 0
        for inst, (off, rop, rarg) in zip(insts, ref):
            assert inst.offset == off, "offset: %r != %r" % (inst.offset, off)
            assert inst.offset == pos, "tiling: offset %r after end %r" % (inst.offset, pos)
            assert inst.opcode == rop, "opcode at %d" % off
            assert inst.opname == opc.opname[rop], "opname at %d" % off
            if real_names is not None and rop < len(real_names) and not real_names[rop].startswith("<"):
                assert inst.opname == real_names[rop].replace("+", "_") or inst.opname == real_names[rop], \
                    "vs-real opname at %d: xdis %r, CPython %d.%d names opcode %d %r" % (off, inst.opname, vt[0], vt[1], rop, real_names[rop])
            if rarg is None:
                assert inst.arg is None, "arg-none at %d: got %r" % (off, inst.arg)
            else:
                assert inst.arg is not None and inst.arg == rarg, "arg at %d" % off
            assert inst.has_arg == takes_operand(opc, rop), "has_arg at %d" % off
            pos = off + ((2 if word else (3 if rop >= opc.HAVE_ARGUMENT else 1)))
        assert pos == len(items), "tiling-end: %r != %r" % (pos, len(items))
        # the instruction under test
        idx = 1 + k
        it = insts[idx]
        if op != ext_op:
            base = 2 if word else (3 if has_arg else 1)
            esz = 2 if word else 3
            assert it.inst_size == base + k * esz, "inst_size %r" % (it.inst_size,)
            assert it.has_extended_arg == (k > 0), "has_extended_arg"
        if use_src:
            dis = oracles.load_dis(vt)
            by_off = {}
            for inst in insts:
                by_off[inst.offset] = inst
            seen = set()
            for tup in dis._unpack_opargs(code):
                off, sop, sarg = tup[0], tup[-2], tup[-1]
                assert off in by_off, "dis reports offset %d, xdis has no instruction there" % off
                inst = by_off[off]
                seen.add(off)
                assert inst.opcode == sop, "vs-dis opcode at %d" % off
                if sarg is None:
                    assert inst.arg is None, "vs-dis arg-none at %d: xdis %r" % (off, inst.arg)
                else:
                    assert inst.arg is not None and inst.arg == sarg, "vs-dis arg at %d" % off
            for inst in insts:
                if inst.offset not in seen:
                    assert inst.opname == "CACHE", "xdis instruction %s at %d not reported by dis" % (
                        inst.opname, inst.offset)

    return Ob(
        id="C02.%s.op%d.k%d" % (tshort(tname), op, k), prop="C02", params=params, body=body, pre=pre,
        funcs=FUNCS, skeleton="table=%s opcode=%d(%s) ext_prefixes=%d" % (tname, op, opc.opname[op], k),
        bound="operand bytes symbolic 0..255 each; operand < 2^31" + (
            "; own operand bytes restricted to lo<=15, hi<=3 (inline %d rendering realises)" if pct_d else ""), timeout=40 if tier == "quick" else 90,
        oracle="arithmetic reference" + ("; R-src dis._unpack_opargs of CPython %d.%d" % vt if use_src else ""),
    )


def generate(tier, seed):
    obs = []
    for tname, opc in tables_for(tier).items():
        word = opc.version_tuple >= (3, 6)
        ext_op = getattr(opc, "EXTENDED_ARG", None)
        if has_interp(opc) and opc.version_tuple >= (3, 6):
            oracles.load_dis(tuple(opc.version_tuple[:2]))
        for op in defined_ops(opc):
            has_arg = takes_operand(opc, op)
            if word:
                ks = (0, 1, 2) if tier == "quick" else (0, 1, 2, 3)
            else:
                ks = (0, 1)
            if not has_arg or ext_op is None:
                ks = (0,)
            for k in ks:
                obs.append(make_ob(tname, opc, op, k, tier))
    from props.corpus import corpus_ob
    obs.append(corpus_ob("C02", "stream", FUNCS))
    return obs
