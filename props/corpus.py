"""Translator/oracle cross-check on real programs (concrete, auxiliary to the symbolic obligations):
every file of the repository's own bytecode corpus whose version has an interpreter in the sandbox is
disassembled by that real interpreter's dis and by xdis; the instruction streams, operand resolution, jump
targets/labels and line starts must agree.  Each of C02-C05 registers one direct obligation reporting the
disagreements that concern its clause."""
import glob
import os
import sys

from engine import oracles
from engine.runner import Ob

_REAL = r'''
import sys, json, marshal, dis, types
files = json.loads(sys.stdin.read())
V = sys.version_info[:2]
hdr = 16 if V >= (3, 7) else 12
import opcode
indexed = set(opcode.hasconst) | set(opcode.hasname) | set(opcode.haslocal) | set(opcode.hasfree) | set(opcode.hascompare) | set(opcode.hasjrel) | set(opcode.hasjabs)
def av(v):
    if hasattr(v, "co_code"): return "<code %s>" % v.co_name
    if isinstance(v, frozenset): return "frozenset(" + ",".join(sorted(repr(x) for x in v)) + ")"
    if isinstance(v, tuple): return "(" + ",".join(av(x) for x in v) + ")"
    return repr(v)
def walk(co, out):
    ins = []
    exc_targets = set()
    if V >= (3, 11):
        for e in dis._parse_exception_table(co):
            exc_targets.add(e.target)
    labels = set(dis.findlabels(co.co_code)) | exc_targets
    for i in dis.get_instructions(co):
        if V >= (3, 13):
            sl = i.line_number if i.starts_line else None
        else:
            sl = i.starts_line
        base = i.opcode
        ins.append([i.offset, i.opcode, i.opname, i.arg, av(i.argval) if base in indexed else None, i.offset in labels, sl])
    out.append({"name": co.co_name, "ins": ins, "labels": sorted(dis.findlabels(co.co_code)),
                "lines": [list(p) for p in dis.findlinestarts(co) if p[1] is not None]})
    for k in co.co_consts:
        if hasattr(k, "co_code"):
            walk(k, out)
res = {}
for path in files:
    data = open(path, "rb").read()
    try:
        co = marshal.loads(data[hdr:])
    except Exception as e:
        res[path] = {"error": "%s: %s" % (type(e).__name__, e)}
        continue
    out = []
    walk(co, out)
    res[path] = {"codes": out}
sys.stdout.write(json.dumps(res))
'''

VERSIONS = {(3, 6): "bytecode_3.6", (3, 7): "bytecode_3.7", (3, 8): "bytecode_3.8", (3, 9): "bytecode_3.9", (3, 10): "bytecode_3.10",
            (3, 11): "bytecode_3.11", (3, 12): "bytecode_3.12"}


def _av(v):
    from xdis.codetype.base import CodeBase
    if isinstance(v, CodeBase) or hasattr(v, "co_code"):
        return "<code %s>" % v.co_name
    if isinstance(v, frozenset):
        return "frozenset(" + ",".join(sorted(repr(x) for x in v)) + ")"
    if isinstance(v, tuple):
        return "(" + ",".join(_av(x) for x in v) + ")"
    return repr(v)


_CACHE = {}


def differences():
    """{clause: [description, ...]}, n_files, n_instructions"""
    if _CACHE:
        return _CACHE["d"], _CACHE["nf"], _CACHE["ni"]
    import xdis.load as LD
    from xdis.bytecode import Bytecode
    from xdis.disasm import get_opcode
    from xdis.cross_dis import findlinestarts
    from xdis.codetype.base import iscode
    d = {"stream": [], "argval": [], "jumps": [], "lines": []}
    nf = ni = 0
    devnull = open(os.devnull, "w")
    for ver, sub in sorted(VERSIONS.items()):
        files = sorted(glob.glob("/repo/test/%s/*.pyc" % sub))
        if not files or ver not in oracles.INTERPS:
            continue
        real = oracles.run_in(ver, _REAL.replace("-S", ""), files, timeout=600)
        indexed_sets = oracles.opcode_dump(ver)["opcode"]
        jumps = set(indexed_sets["hasjrel"]) | set(indexed_sets["hasjabs"])
        for path in files:
            r = real.get(path)
            if not r or "error" in r:
                continue   # the real interpreter cannot read this corpus file (other minor magic): no oracle
            saved = sys.stdout, sys.stderr
            sys.stdout = sys.stderr = devnull
            try:
                try:
                    vt, ts, magic, co, pypy, size, sip = LD.load_module(path, {}, fast_load=False)
                except Exception as e:
                    d["stream"].append("%s: xdis cannot load a file CPython %d.%d loads: %s" % (path, ver[0], ver[1], e))
                    continue
                if tuple(vt[:2]) != ver:
                    continue
                opc = get_opcode(vt, pypy)
                codes = []

                def walk(c):
                    codes.append(c)
                    for k in c.co_consts:
                        if iscode(k):
                            walk(k)
                walk(co)
                nf += 1
                if len(codes) != len(r["codes"]):
                    d["stream"].append("%s: %d code objects, CPython has %d" % (path, len(codes), len(r["codes"])))
                    continue
                for c, rc in zip(codes, r["codes"]):
                    where = "%s:%s" % (os.path.relpath(path, "/repo/test"), c.co_name)
                    try:
                        mine = [i for i in Bytecode(c, opc, dup_lines=False) if i.opname != "CACHE"]
                        labels = sorted(opc.findlabels(c.co_code, opc))
                        lines = [list(p) for p in findlinestarts(c) if p[1] is not None] if ver >= (3, 10) else \
                            [list(p) for p in opc.findlinestarts(c)]
                    except Exception as e:
                        d["stream"].append("%s: xdis raises %s: %s" % (where, type(e).__name__, str(e)[:100]))
                        continue
                    ni += len(mine)
                    if len(mine) != len(rc["ins"]):
                        d["stream"].append("%s: %d instructions, CPython %d.%d dis has %d" % (where, len(mine), ver[0], ver[1], len(rc["ins"])))
                        continue
                    for g, (off, opcode, opname, arg, argval, isjt, sl) in zip(mine, rc["ins"]):
                        if (g.offset, g.opcode, g.opname, g.arg) != (off, opcode, opname, arg):
                            d["stream"].append("%s @%d: xdis (%r, %r, %r), dis (%r, %r, %r)" % (where, off, g.opcode, g.opname, g.arg, opcode, opname, arg))
                            break
                        if argval is not None:
                            mineav = _av(g.argval)
                            if opname == "COMPARE_OP" and mineav in ("'not-in'", "'is-not'", "'exception-match'"):
                                mineav = mineav.replace("-", " ")   # known finding C03 cmp_op-hyphenated has its own obligation
                            if mineav != argval:
                                (d["jumps"] if opcode in jumps else d["argval"]).append(
                                    "%s @%d %s %r: argval xdis %s, dis %s" % (where, off, opname, arg, mineav[:60], argval[:60]))
                        if bool(g.is_jump_target) != bool(isjt):
                            d["jumps"].append("%s @%d %s: is_jump_target xdis %r, dis %r" % (where, off, opname, g.is_jump_target, isjt))
                        if g.starts_line != sl:
                            d["lines"].append("%s @%d: starts_line xdis %r, dis %r" % (where, off, g.starts_line, sl))
                    if labels != rc["labels"]:
                        d["jumps"].append("%s: findlabels xdis %r, dis %r" % (where, labels[:8], rc["labels"][:8]))
                    if lines != rc["lines"]:
                        d["lines"].append("%s: findlinestarts xdis %r, dis %r" % (where, lines[:5], rc["lines"][:5]))
            finally:
                sys.stdout, sys.stderr = saved
    devnull.close()
    _CACHE.update({"d": d, "nf": nf, "ni": ni})
    return d, nf, ni


def corpus_ob(prop, clause, funcs):
    def q():
        d, nf, ni = differences()
        if d[clause]:
            return "refuted", "%d disagreements" % len(d[clause]), {"first": d[clause][0][:80]}, 0, 0.0
        return "confirmed", "%d files, %d instructions" % (nf, ni), None, 0, 0.0

    def replay(first):
        _CACHE.clear()
        d, nf, ni = differences()
        return ("%d disagreements with the real dis on the repository's corpus; first: %s" % (len(d[clause]), d[clause][0])) if d[clause] else None

    return Ob(id="%s.corpus.%s" % (prop, clause), prop=prop, params=[], body=None, direct=q, replay=replay, funcs=funcs,
              region="corpus.%s" % clause, skeleton="repository bytecode corpus 3.6-3.12 through xdis and through the real dis of each version (%s)" % clause,
              bound="every corpus file the real interpreter of its version loads", timeout=600,
              oracle="R-real: dis.get_instructions/findlabels/findlinestarts of the real interpreter (concrete)")
