"""C16 - native and portable code objects convert back and forth without loss."""
import re
import types

from engine import oracles
from engine.runner import Ob
from props import common

LEVEL = "model_checking"
EXPLANATION = (
    "Symbolic part: codeType2Portable is executed under CrossHair on a native-looking code object that carries the attribute "
    "surface of each host 3.8-3.13 (taken from the real interpreter at run time: co_lnotab AND co_linetable on 3.10+, ...) with "
    "pairwise distinct field values, and with the host version triple symbolic; the portable class must be the one for the host "
    "and every field must equal the same-named native field (the line table being the host's real table attribute). "
    "to_native() is run with types.CodeType replaced by a recorder whose parameter order is the real constructor's of that host: "
    "every field must land in the slot of its own name. replace(field=v) with symbolic v must change exactly that field and "
    "leave the original untouched. Concrete part (R-real): real code objects (loop, closure, try, class body, comprehension, "
    "generator, lambda) are round-tripped in each installed interpreter 3.8-3.13, twice and interleaved (so state kept between "
    "conversions shows), and compared field by field.")
BOUNDS = {"quick": "hosts 3.8-3.13; all fields; symbolic host micro version 0..30; replace over every field with a symbolic int/marker; "
                   "7 real code-object kinds x 6 interpreters", "thorough": "same"}
OUTSIDE = ["all native code objects of arbitrary programs: types.CodeType and the native attribute getters are C; what is decided "
           "symbolically is the field plumbing for arbitrary field values on a modelled attribute surface"]
ASSUMPTIONS = ["`types` inside xdis.codetype rebound so that the modelled native object passes the isinstance(types.CodeType) gate",
               "the attribute surface / constructor signature dumped from each real interpreter", "CrossHair/z3 soundness"]
FUNCS = ["xdis.codetype.codeType2Portable", "xdis.codetype.portableCodeType", "xdis.codetype.code30.Code3.to_native",
         "xdis.codetype.code38.Code38.to_native", "xdis.codetype.code310.Code310.to_native", "xdis.codetype.code311.Code311.to_native",
         "xdis.codetype.code13.Code13.replace", "Code*.freeze", "Code*.check"]

HOSTS = [(3, 8), (3, 9), (3, 10), (3, 11), (3, 12), (3, 13)]

VALUES = {
    "co_argcount": 1, "co_posonlyargcount": 2, "co_kwonlyargcount": 3, "co_nlocals": 4, "co_stacksize": 5, "co_flags": 6,
    "co_firstlineno": 7, "co_code": b"\x01\x02", "co_consts": ("c",), "co_names": ("n",), "co_varnames": ("v",),
    "co_freevars": ("f",), "co_cellvars": ("ce",), "co_filename": "file.py", "co_name": "nm", "co_qualname": "q.nm",
    "co_lnotab": b"\x11\x12", "co_linetable": b"\x21\x22\x23", "co_exceptiontable": b"\x31",
}


def native_like(host, z=None, ints=None):
    """object that passes isinstance(x, types.CodeType) and has exactly the data attributes of a real code object of `host`;
    field number z (if any) holds the falsy value of its type ('' / 0 / () / b'') instead of its marker.
    Returns (object, surface, values)"""
    surface = [a for a in oracles.opcode_dump(host)["code_dir"] if a in VALUES]
    values = dict(VALUES)
    if ints:
        values.update(ints)
    if z is not None:
        for i, a in enumerate(surface):
            if z == i:
                values[a] = type(VALUES[a])()

    class Native(object):
        __class__ = types.CodeType

    n = Native()
    for a in surface:
        object.__setattr__(n, a, values[a])
    # codeType2Portable tests isinstance(code, types.CodeType); CrossHair's isinstance ignores the __class__ override,
    # so the `types` name inside xdis.codetype is rebound to a shim whose CodeType is this class (stub, harness only)
    import xdis.codetype as CT

    class _TypesShim(object):
        CodeType = Native
    CT.types = _TypesShim
    return n, surface, values


def ctor_params(host):
    d = oracles.opcode_dump(host)
    sig = d.get("code_sig")
    if sig:
        inner = sig.strip()[1:-1]
    else:
        inner = re.search(r"code\((.*?)\)\n", d["code_doc"], re.S).group(1).replace("[", "").replace("]", "").replace("\n", " ")
    names = [p.strip().split("=")[0] for p in inner.split(",") if p.strip() not in ("/", "*")]
    ren = {"codestring": "co_code", "constants": "co_consts", "lnotab": "co_lnotab", "linetable": "co_linetable"}
    return [ren.get(n, "co_" + n) for n in names]


def portable_ob(host):
    real_table = "co_linetable" if host >= (3, 10) else "co_lnotab"

    nsurf = len([a for a in oracles.opcode_dump(host)["code_dir"] if a in VALUES])

    def body(micro, z):
        import xdis.codetype as CT
        nat, surface, values = native_like(host, z)
        vt = (host[0], host[1], micro)
        p = CT.codeType2Portable(nat, vt)
        assert type(p) is CT.portableCodeType(vt), "class %s for host %r" % (type(p).__name__, vt)
        for a in surface:
            if a in ("co_lnotab", "co_linetable"):
                continue
            assert hasattr(p, a), "portable object lacks %s" % a
            assert getattr(p, a) == values[a], "field %s: %r != %r" % (a, getattr(p, a), values[a])
        got = getattr(p, real_table, None)
        assert got == values[real_table], "line table: portable.%s = %r, the host's real table (%s) is %r" % (
            real_table, got, real_table, values[real_table])

    return Ob(id="C16.portable.%d%d" % host, prop="C16", params=[("micro", (0, 30)), ("z", (0, nsurf))], body=body, funcs=FUNCS,
              region="portable.%d%d" % host, skeleton="codeType2Portable on the %d.%d attribute surface" % host,
              bound="micro 0..30; distinct marker values in every field, one field (symbolic choice z, or none) at the falsy value of its type",
              timeout=60, oracle="same-named field; real line-table attribute")


def to_native_ob(host):
    params_order = ctor_params(host)
    nsurf = len([a for a in oracles.opcode_dump(host)["code_dir"] if a in VALUES])

    def body(micro, z):
        import xdis.codetype as CT
        from xdis.codetype import code30, code38, code310, code311
        nat, surface, values = native_like(host, z)
        vt = (host[0], host[1], micro)
        p = CT.codeType2Portable(nat, vt)
        calls = []

        class _Types(object):
            @staticmethod
            def CodeType(*args):
                calls.append(args)
                return ("native", args)
        saved = []
        for mod in (code30, code38, code310, code311):
            saved.append((mod, mod.types, mod.PYTHON_VERSION_TRIPLE))
            mod.types = _Types
            mod.PYTHON_VERSION_TRIPLE = vt
        try:
            p.to_native()
        finally:
            for mod, t, tr in saved:
                mod.types = t
                mod.PYTHON_VERSION_TRIPLE = tr
        assert len(calls) == 1, "constructor calls: %d" % len(calls)
        args = calls[0]
        assert len(args) == len(params_order), "constructor got %d arguments, the %d.%d constructor takes %d (%r)" % (
            len(args), host[0], host[1], len(params_order), params_order)
        for name, val in zip(params_order, args):
            want = values[name]
            if name in ("co_lnotab", "co_linetable"):
                want = values["co_linetable" if host >= (3, 10) else "co_lnotab"]
            assert val == want, "constructor slot %s received %r, field value is %r" % (name, val, want)

    return Ob(id="C16.to_native.%d%d" % host, prop="C16", params=[("micro", (0, 30)), ("z", (0, nsurf))], body=body, funcs=FUNCS,
              region="to_native.%d%d" % host, skeleton="to_native() with the real %d.%d constructor order %r" % (host + (params_order,)),
              bound="micro 0..30; one field (symbolic choice z, or none) at the falsy value of its type", timeout=60,
              oracle="constructor signature of the real interpreter")


INT_FIELDS = [("co_argcount", (0, 255)), ("co_posonlyargcount", (0, 255)), ("co_kwonlyargcount", (0, 255)), ("co_nlocals", (0, 65535)),
              ("co_stacksize", (0, 2 ** 31 - 1)), ("co_flags", (0, 2 ** 32 - 1)), ("co_firstlineno", (0, 2 ** 31 - 1))]


def to_native_ints_ob(host):
    """every integer field symbolic over its whole range (co_flags: all 32 bits, so interpreter-specific and __future__ bits
    are in the claim): the constructor must receive exactly the field values (added after seed C16-j)"""
    params_order = ctor_params(host)
    surface0 = [a for a in oracles.opcode_dump(host)["code_dir"] if a in VALUES]
    fields = [(f, r) for f, r in INT_FIELDS if f in surface0]

    assert [f for f, _r in fields] == [f for f, _r in INT_FIELDS]   # every 3.8+ host has all seven

    def body(micro, argcount, posonlyargcount, kwonlyargcount, nlocals, stacksize, flags, firstlineno):
        import xdis.codetype as CT
        from xdis.codetype import code30, code38, code310, code311
        ints = {"co_argcount": argcount, "co_posonlyargcount": posonlyargcount, "co_kwonlyargcount": kwonlyargcount,
                "co_nlocals": nlocals, "co_stacksize": stacksize, "co_flags": flags, "co_firstlineno": firstlineno}
        nat, surface, values = native_like(host, None, ints)
        vt = (host[0], host[1], micro)
        p = CT.codeType2Portable(nat, vt)
        for f in ints:
            assert getattr(p, f) == ints[f], "portable field %s = %r, native value %r" % (f, getattr(p, f), ints[f])
        calls = []

        class _Types(object):
            @staticmethod
            def CodeType(*args):
                calls.append(args)
                return ("native", args)
        saved = []
        for mod in (code30, code38, code310, code311):
            saved.append((mod, mod.types, mod.PYTHON_VERSION_TRIPLE))
            mod.types = _Types
            mod.PYTHON_VERSION_TRIPLE = vt
        try:
            p.to_native()
        finally:
            for mod, t, tr in saved:
                mod.types = t
                mod.PYTHON_VERSION_TRIPLE = tr
        assert len(calls) == 1, "constructor calls: %d" % len(calls)
        for name, val in zip(params_order, calls[0]):
            if name in ints:
                assert val == ints[name], "constructor slot %s received %r, field value is %r" % (name, val, ints[name])

    return Ob(id="C16.to_native.%d%d.ints" % host, prop="C16", params=[("micro", (0, 30))] + [(f[3:], r) for f, r in fields],
              body=body, funcs=FUNCS, region="to_native.%d%d" % host,
              skeleton="to_native() of the %d.%d class with every integer field symbolic" % host,
              bound="micro 0..30; argcounts 0..255, nlocals 0..65535, stacksize/firstlineno 0..2**31-1, co_flags 0..2**32-1 (all 32 flag bits)",
              timeout=90, oracle="constructor receives the native object's value in every integer slot")


def replace_ob(host, field):
    def body(v, micro):
        import copy
        import xdis.codetype as CT
        nat, surface, _values = native_like(host)
        p = CT.codeType2Portable(nat, (host[0], host[1], micro))
        before = {a: copy.deepcopy(getattr(p, a)) for a in vars(p) if a.startswith("co_")}
        newval = v if isinstance(VALUES[field], int) else (VALUES[field] + VALUES[field])
        q = p.replace(**{field: newval})
        assert q is not p, "replace returned the same object"
        for a, val in before.items():
            assert getattr(p, a) == val, "original altered: %s" % a
            if a == field:
                assert getattr(q, a) == newval, "replaced field %s = %r" % (a, getattr(q, a))
            else:
                assert getattr(q, a) == val, "other field %s changed to %r" % (a, getattr(q, a))
        assert type(q) is type(p), "class changed"

    return Ob(id="C16.replace.%d%d.%s" % (host[0], host[1], field), prop="C16", params=[("v", (-5, 1000000)), ("micro", (0, 3))],
              body=body, funcs=FUNCS, region="replace", skeleton="replace(%s=v) on the %d.%d portable class" % (field, host[0], host[1]),
              bound="v symbolic", timeout=60, oracle="frame condition")


_RT_SCRIPT = r'''
import sys, json
sys.path.insert(0, "@REPO@")
import xdis
from xdis.codetype import codeType2Portable, portableCodeType
def loop(n):
    t = 0
    for i in range(n):
        try:
            t += i
        except ValueError:
            pass
    return t
def outer(a, b=1, *c, **d):
    x = 1
    def inner():
        return a, x
    return inner
class K:
    z = [i for i in range(3)]
    def m(self): return self.z
def gen():
    yield 1
lam = lambda q: q + 1
src_a = compile("def f(self):\n    return 1\n", "pkg_a/io.py", "exec")
src_b = compile("def f(self):\n    return 1\n", "pkg_b/io.py", "exec")
fa = [k for k in src_a.co_consts if hasattr(k, "co_code")][0]
fb = [k for k in src_b.co_consts if hasattr(k, "co_code")][0]
objs = {"loop": loop.__code__, "closure": outer.__code__, "inner": [k for k in outer.__code__.co_consts if hasattr(k, "co_code")][0],
        "method": K.m.__code__, "gen": gen.__code__, "lambda": lam.__code__, "module": src_a, "same-text-a": fa, "same-text-b": fb}
import __future__
for _fn in ("print_function", "unicode_literals", "division", "annotations", "generator_stop", "barry_as_FLUFL"):
    _fl = getattr(__future__, _fn).compiler_flag
    try:
        _m = compile("def f(a):\n    return a\n", "fut_%s.py" % _fn, "exec", flags=_fl, dont_inherit=True)
    except Exception:
        continue
    objs["future-" + _fn] = _m
    objs["future-" + _fn + "-f"] = [k for k in _m.co_consts if hasattr(k, "co_code")][0]
if hasattr(lam.__code__, "replace"):
    for _bit in range(32):
        try:
            objs["flagbit-%d" % _bit] = lam.__code__.replace(co_flags=lam.__code__.co_flags | (1 << _bit))
        except Exception:
            pass
fields = [n for n in dir(loop.__code__) if n.startswith("co_") and not callable(getattr(loop.__code__, n))]
if sys.version_info >= (3, 10) and "co_lnotab" in fields:
    fields.remove("co_lnotab")   # deprecated derived view
bad = []
order = list(objs) + list(reversed(list(objs)))   # every object twice, interleaved
for name in order:
    co = objs[name]
    try:
        p = codeType2Portable(co)
        if type(p) is not portableCodeType(tuple(sys.version_info[:3])):
            bad.append([name, "class", type(p).__name__, "", ""])
        back = p.to_native()
        for f in fields:
            if getattr(back, f) != getattr(co, f):
                bad.append([name, f, repr(getattr(back, f))[:80], repr(getattr(co, f))[:80], ""])
        if back != co:
            bad.append([name, "==", "round-tripped code object != original", "", ""])
        q = p.replace(co_name="zz")
        if p.co_name != co.co_name or q.co_name != "zz":
            bad.append([name, "replace", p.co_name, q.co_name, ""])
    except Exception as e:
        bad.append([name, "exception", type(e).__name__, str(e)[:120], ""])
sys.stdout.write(json.dumps(bad))
'''


def real_ob(host):
    def q():
        bad = oracles.run_in(host, _RT_SCRIPT.replace('@REPO@', common.REPO), None)
        if bad:
            return "refuted", "%d mismatches" % len(bad), {"first": "|".join(str(x) for x in bad[0])}, 0, 0.0
        return "confirmed", "9 code objects + __future__ compile-flag variants + one variant per co_flags bit, x 2 passes", None, 0, 0.0

    def replay(first):
        bad = oracles.run_in(host, _RT_SCRIPT.replace('@REPO@', common.REPO), None)
        if not bad:
            return None
        b = bad[0]
        return "host %d.%d: round trip of the %s code object: field %s came back as %s, original %s %s" % (host[0], host[1], b[0], b[1], b[2], b[3], b[4])

    return Ob(id="C16.real.%d%d" % host, prop="C16", params=[], body=None, direct=q, replay=replay, funcs=FUNCS,
              region="real.%d%d" % host, skeleton="real code objects round-tripped inside CPython %d.%d" % host,
              bound="9 real code objects, 12 compiled with each __future__ compiler flag, 32 with one extra co_flags bit each; each converted twice, interleaved", timeout=120, oracle="R-real (concrete)")


def generate(tier, seed):
    oracles.preload(HOSTS)
    obs = []
    for h in HOSTS:
        obs.append(portable_ob(h))
        obs.append(to_native_ob(h))
        obs.append(to_native_ints_ob(h))
        obs.append(real_ob(h))
        nat, surface, _v = native_like(h)
        for f in surface:
            if f == ("co_lnotab" if h >= (3, 10) else "co_linetable"):
                continue
            if tier == "quick" and h not in ((3, 8), (3, 12)):
                continue
            obs.append(replace_ob(h, f))
    return obs
