#!/usr/bin/env python3
"""Regenerate /verif/MANIFEST.json from the property modules that exist (props/cNN.py)."""
import importlib
import json
import os
import sys

HERE = os.path.dirname(os.path.dirname(os.path.abspath(__file__)))
sys.path.insert(0, HERE)
sys.path.insert(1, "/repo")

NOT_APPLICABLE = {}
PENDING = "obligation generator not built yet in this round (planned in DESIGN.md section 4)"

TECH = {
    "C08": "symbolic execution (CrossHair+z3) of int2magic/magic2int/sysinfo2magic + direct SMT (z3, cvc5 cross-check) over 16-bit magic tables",
    "C09": "direct SMT (z3, cvc5 cross-check) over 8/16-bit opcode keys of tables materialised from the real modules",
}
DEFAULT_TECH = "bounded symbolic execution of the real xdis functions (CrossHair 0.0.110 + z3), differential postconditions vs CPython's own dis source / validated reference models, counterexamples replayed on real interpreters"


def main():
    checks = []
    na = []
    for i in range(1, 21):
        pid = "C%02d" % i
        path = os.path.join(HERE, "props", pid.lower() + ".py")
        if pid in NOT_APPLICABLE:
            na.append({"property_id": pid, "reason": NOT_APPLICABLE[pid]})
            continue
        if not os.path.exists(path):
            na.append({"property_id": pid, "reason": PENDING})
            continue
        mod = importlib.import_module("props." + pid.lower())
        consts = {n: getattr(mod, n) for n in ("LEVEL", "EXPLANATION", "ASSUMPTIONS", "OUTSIDE", "BOUNDS") if hasattr(mod, n)}
        text = consts.get("EXPLANATION", "")
        bounds = consts.get("BOUNDS", {})
        checks.append({
            "property_id": pid,
            "quick_cmd": "/venv/bin/python vcheck.py %s --tier quick" % pid,
            "thorough_cmd": "/venv/bin/python vcheck.py %s --tier thorough" % pid,
            "evidence_file": "/verif/evidence/%s.json" % pid,
            "replay_cmd_template": "/venv/bin/python vcheck.py --replay {path}",
            "engine": "vcheck",
            "level_claimed": {
                "category": consts.get("LEVEL", "model_checking"),
                "text": text + " Holds means: for every input within the stated bound (quick: %s; thorough: %s). "
                               "Outside the claim: %s" % (bounds.get("quick", ""), bounds.get("thorough", ""),
                                                          "; ".join(consts.get("OUTSIDE", []))),
                "design_ref": "DESIGN.md section 4 (%s), sections 2.1-2.7" % pid,
            },
            "level_note": "Trusted base / assumptions: " + "; ".join(consts.get("ASSUMPTIONS", [])),
            "technique": TECH.get(pid, DEFAULT_TECH),
        })
    man = {
        "version": 1,
        "setup_cmd": "sh /verif/setup.sh",
        "hooks": {
            "guard": "XDIS_VERIF",
            "enable": "no hooks are compiled into /repo: all stubbing is done by rebinding names inside the harness process (vcheck.py sets XDIS_VERIF=1 only for symmetry)",
            "baseline_off_cmd": "cd /repo && /venv/bin/python -m pytest -ra -q -p no:cacheprovider --timeout=900 --continue-on-collection-errors",
            "source_commits": [],
            "add_only": True,
        },
        "engines": [
            {"name": "vcheck", "path": "/verif/vcheck.py",
             "serves_properties": [c["property_id"] for c in checks],
             "kind_free_text": "obligation generator + CrossHair/z3 symbolic execution of the real functions (engine/runner.py, engine/chplug.py), direct SMT for table properties (engine/smt.py), R-src/R-real oracles from the installed interpreters (engine/oracles.py)"},
        ],
        "checks": checks,
        "not_applicable": na,
        "notes": "Exit codes: 0 = held on everything explored (known findings printed as KNOWN-FINDING lines), 1 = violation (VIOLATION line), 3 = harness error (vacuous obligation, non-reproducing counterexample, oracle-model disagreement). Inconclusive obligations are counted in evidence and never reported as covered.",
    }
    with open(os.path.join(HERE, "MANIFEST.json"), "w") as f:
        json.dump(man, f, indent=1)
        f.write("\n")
    print("checks:", [c["property_id"] for c in checks], "n/a:", [n["property_id"] for n in na])


if __name__ == "__main__":
    main()
