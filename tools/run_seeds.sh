#!/bin/sh
# run_seeds.sh [seed-name ...]: try each seeded change against the quick check of the property it targets.
# The change is applied in a scratch worktree of /repo (removed afterwards); XDIS_VERIF_REPO points the check at it, so
# /repo itself and /verif/evidence are never touched.  Results go to /verif/seeded/<name>/result.txt.
cd /verif
if [ $# -eq 0 ]; then set -- $(ls seeded | grep -v RESULTS); fi
for name in "$@"; do
  prop=$(echo $name | cut -c1-3)
  WT=/tmp/sr-$name; OUT=/tmp/sr-$name.out
  git -C /repo worktree remove --force $WT 2>/dev/null; rm -rf $OUT
  git -C /repo worktree add -q --detach $WT HEAD || continue
  if ! git -C $WT apply /verif/seeded/$name/patch.diff; then echo "$name: patch does not apply"; git -C /repo worktree remove --force $WT; continue; fi
  s=$(date +%s)
  XDIS_VERIF_REPO=$WT XDIS_VERIF_OUT=$OUT /venv/bin/python vcheck.py $prop --tier quick > /tmp/seedrun.$name.out 2>/tmp/seedrun.$name.err; rc=$?
  e=$(date +%s)
  git -C /repo worktree remove --force $WT; rm -rf $OUT
  { echo "seed=$name property=$prop exit=$rc wall=$((e-s))s"; grep -v "^\[" /tmp/seedrun.$name.out | grep "violated\|tier=\|KNOWN" | cut -c1-400 | head -12; grep -c "^VIOLATION" /tmp/seedrun.$name.out | sed 's/^/VIOLATION lines: /'; grep "HARNESS" /tmp/seedrun.$name.err | head -3 | cut -c1-400; } > seeded/$name/result.txt
  head -1 seeded/$name/result.txt
done
git -C /repo worktree prune
