#!/bin/sh
# run_seeds.sh [seed-name ...]: apply each seeded change to /repo, run the quick check of the property it targets,
# undo the change straight afterwards. Results go to /verif/seeded/<name>/result.txt (first 40 lines of output + exit code).
cd /verif
if [ $# -eq 0 ]; then set -- $(ls seeded); fi
for name in "$@"; do
  prop=$(echo $name | cut -c1-3)
  git -C /repo checkout -- . 
  if ! git -C /repo apply /verif/seeded/$name/patch.diff; then echo "$name: patch does not apply"; continue; fi
  s=$(date +%s)
  /venv/bin/python vcheck.py $prop --tier quick > /tmp/seedrun.$name.out 2>/tmp/seedrun.$name.err; rc=$?
  e=$(date +%s)
  git -C /repo checkout -- .
  { echo "seed=$name property=$prop exit=$rc wall=$((e-s))s"; grep -v "^\[" /tmp/seedrun.$name.out | grep "violated\|tier=\|KNOWN" | cut -c1-400 | head -12; grep -c "^VIOLATION" /tmp/seedrun.$name.out | sed 's/^/VIOLATION lines: /'; grep "HARNESS" /tmp/seedrun.$name.err | head -3 | cut -c1-400; } > seeded/$name/result.txt
  head -1 seeded/$name/result.txt
done
git -C /repo status --short | head -3
