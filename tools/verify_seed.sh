#!/bin/sh
# verify_seed.sh <name> <dir with patch.diff demo.py>: confirm the seeded change in a scratch worktree
# (applies, baseline tests unchanged, demo passes before / fails after); removes the worktree afterwards.
set -u
NAME=$1; DIR=$2
WT=/tmp/vs-$NAME
git -C /repo worktree remove --force $WT 2>/dev/null
git -C /repo worktree add -q --detach $WT HEAD || exit 2
( cd $WT && PYTHONPATH=/repo /venv/bin/python $DIR/demo.py >/tmp/vs-$NAME.before 2>&1 ); B=$?
( cd $WT && git apply $DIR/patch.diff ) || { echo "PATCH DOES NOT APPLY"; git -C /repo worktree remove --force $WT; exit 2; }
( cd $WT && PYTHONPATH=$WT /venv/bin/python $DIR/demo.py >/tmp/vs-$NAME.after 2>&1 ); A=$?
T=$(cd $WT && PYTHONPATH=$WT /venv/bin/python -m pytest -q -p no:cacheprovider --timeout=900 --continue-on-collection-errors 2>&1 | tail -1)
git -C /repo worktree remove --force $WT
echo "seed=$NAME demo_before_exit=$B demo_after_exit=$A tests: $T"
