#!/bin/sh
# run_benign.sh [benign|evolve]: the behaviour-preserving refactorings (/verif/seeded/benign-*/) or the property-preserving
# evolutionary changes (/verif/seeded/evolve-*/) are applied together in a scratch worktree of /repo and every quick check is
# run against it: each must exit 0 (no alarm on code where the property holds).  Result: seeded/<kind>-result.txt
cd /verif
KIND=${1:-benign}
WT=/tmp/sr-$KIND; OUT=/tmp/sr-$KIND.out
git -C /repo worktree remove --force $WT 2>/dev/null; rm -rf $OUT
git -C /repo worktree add -q --detach $WT HEAD || exit 2
for d in seeded/$KIND-[0-9]*; do git -C $WT apply /verif/$d/patch.diff || { echo "$d: patch does not apply"; exit 2; }; done
: > seeded/$KIND-result.txt
for i in 01 02 03 04 05 06 07 08 09 10 11 12 13 14 15 16 17 18 19 20; do
  s=$(date +%s)
  XDIS_VERIF_REPO=$WT XDIS_VERIF_OUT=$OUT /venv/bin/python vcheck.py C$i --tier quick > /tmp/$KIND.C$i.out 2>/tmp/$KIND.C$i.err; rc=$?
  e=$(date +%s)
  echo "C$i exit=$rc wall=$((e-s))s $(grep 'tier=quick' /tmp/$KIND.C$i.out | tail -1) VIOLATION-lines=$(grep -c '^VIOLATION' /tmp/$KIND.C$i.out)" | tee -a seeded/$KIND-result.txt
done
git -C /repo worktree remove --force $WT; rm -rf $OUT; git -C /repo worktree prune
