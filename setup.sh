#!/bin/sh
# Idempotent, offline: build the CrossHair overlay venv of /venv used by every check.
set -e
V=/verif/.venv
if [ -x "$V/bin/python" ] && "$V/bin/python" -c "import crosshair, z3" 2>/dev/null; then
  exit 0
fi
rm -rf "$V"
/venv/bin/python -m venv "$V"
SP=$("$V/bin/python" -c "import sysconfig; print(sysconfig.get_paths()['purelib'])")
printf '/venv/lib/python3.12/site-packages\n/repo\n' > "$SP/verif_overlay.pth"
PIP_NO_INDEX=1 "$V/bin/python" -m pip install -q --no-index --find-links /opt/veriftools/wheels crosshair-tool z3-solver >/dev/null
"$V/bin/python" -c "import crosshair, z3; print('verif env ok', z3.get_version_string())"
