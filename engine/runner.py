"""Obligation runner: each obligation is a Python function over symbolic parameters whose
body drives the *real* xdis code; CrossHair/z3 decide it path by path.  Obligations are
distributed over forked worker processes; counterexamples are realised inside the failing
path and handed back for replay on the unpatched code.
"""
import linecache
import multiprocessing as mp
import os
import queue as _queue
import sys
import time
import traceback

CONFIRMED = "confirmed"
REFUTED = "refuted"
INCONCLUSIVE = "inconclusive"
ERROR = "error"


class Ob:
    """One proof obligation.

    params : list of (name, spec); spec is (lo, hi) inclusive int range, 'int', 'bool',
             'bytes' or 'str'.
    body   : callable(**kw) executed symbolically; raises AssertionError (message starting
             with a stable tag) or any other exception on violation.
    pre    : optional callable(**kw) -> bool, additional precondition.
    replay : optional callable(**concrete_kw) -> None | str; run in the parent on the
             unpatched code (+ real interpreters); returns a description when the violation
             reproduces.  Default: re-run body concretely.
    region : name of the known-finding region this obligation is *expected* to be refuted in
             (None for obligations that must confirm).
    """

    def __init__(self, id, prop, params, body, pre=None, replay=None, funcs=(), skeleton="",
                 bound="", timeout=30.0, opaque_repr=True, region=None, struct_model=True,
                 oracle="", setup=None, direct=None, fresh=False):
        self.id = id
        self.prop = prop
        self.params = list(params)
        self.body = body
        self.pre = pre
        self.replay = replay
        self.funcs = list(funcs)
        self.skeleton = skeleton
        self.bound = bound
        self.timeout = float(timeout)
        self.opaque_repr = opaque_repr
        self.region = region
        self.struct_model = struct_model
        self.oracle = oracle
        self.setup = setup
        # direct: callable() -> (verdict, detail, cex|None, n_queries, solver_s): an obligation discharged by
        # a direct SMT query (engine/smt.py) instead of CrossHair (E2, DESIGN 2.5)
        self.direct = direct
        # fresh: run this obligation in its own forked child of the (pristine) parent image, so that module-level
        # state left behind by earlier obligations of the same worker cannot influence it (history properties)
        self.fresh = fresh

    def describe(self):
        return {
            "id": self.id, "skeleton": self.skeleton, "bound": self.bound,
            "symbolic": ["%s:%s" % (n, s if isinstance(s, str) else "[%d,%d]" % s)
                         for n, s in self.params],
            "functions": self.funcs, "oracle": self.oracle,
        }


_OBS = []          # set by the parent before forking
_STATS = {"started": 0, "completed": 0, "solver_s": 0.0, "queries": 0}
_LAST_CEX = [None]


_SCRATCH = [None]


def _scratch():
    """per-run scratch dir outside /repo and /verif; removed by the parent at exit"""
    if _SCRATCH[0] is None or not os.path.isdir(_SCRATCH[0]):
        import tempfile
        _SCRATCH[0] = tempfile.mkdtemp(prefix="vcheck-")
    return _SCRATCH[0]


def cleanup_scratch():
    import shutil
    if _SCRATCH[0]:
        shutil.rmtree(_SCRATCH[0], ignore_errors=True)
        _SCRATCH[0] = None


def _annot(spec):
    if isinstance(spec, tuple) or spec == "int":
        return "int"
    return {"bool": "bool", "bytes": "bytes", "str": "str"}[spec]


def _build(ob, twin):
    names = [n for n, _ in ob.params]
    sig = ", ".join("%s: %s" % (n, _annot(s)) for n, s in ob.params)
    call = ", ".join("%s=%s" % (n, n) for n in names)
    src = "def ob_fn(%s):\n    assert _pre(%s)\n    _body(%s)\n" % (sig, call, call)
    fname = os.path.join(_scratch(), "ob_%d_%s.py" % (os.getpid(), "twin" if twin else "main"))
    with open(fname, "w") as f:
        f.write(src)
    linecache.checkcache(fname)

    ranges = [(n, s) for n, s in ob.params if isinstance(s, tuple)]

    def _pre(**kw):
        for n, (lo, hi) in ranges:
            v = kw[n]
            if not (lo <= v):
                return False
            if not (v <= hi):
                return False
        if ob.pre is not None:
            if not ob.pre(**kw):
                return False
        return True

    if twin:
        def _body(**kw):
            raise AssertionError("twin-reached")
    else:
        def _body(**kw):
            _STATS["started"] += 1
            try:
                ob.body(**kw)
            except Exception as e:  # not BaseException: CrossHair steering must pass through
                try:
                    from crosshair.core import deep_realize
                    _LAST_CEX[0] = (deep_realize(kw), "%s: %s" % (type(e).__name__, _safe_str(e)))
                except Exception:
                    pass
                raise
            _STATS["completed"] += 1

    g = {"_pre": _pre, "_body": _body}
    exec(compile(src, fname, "exec"), g)
    fn = g["ob_fn"]
    import types
    if "verif_ob" not in sys.modules:
        sys.modules["verif_ob"] = types.ModuleType("verif_ob")
    fn.__module__ = "verif_ob"
    return fn


def _safe_str(e):
    try:
        s = str(e)
    except Exception:
        s = "<unprintable>"
    return s[:500]


def _analyze(fn, timeout):
    from crosshair.core_and_libs import analyze_function, run_checkables
    from crosshair.options import AnalysisKind, AnalysisOptionSet, DEFAULT_OPTIONS
    opts = DEFAULT_OPTIONS.overlay(AnalysisOptionSet(
        analysis_kind=[AnalysisKind.asserts], per_condition_timeout=timeout,
        per_path_timeout=timeout, report_all=True))
    checkables = analyze_function(fn, opts)
    if not checkables:
        return [("error", "no checkable produced")]
    msgs = run_checkables(checkables)
    return [(m.state.name, m.message) for m in msgs]


_WORKER_READY = [False]


def _worker_init():
    if _WORKER_READY[0]:
        return
    _WORKER_READY[0] = True
    from engine import chplug
    chplug.install()
    import z3
    orig_check = z3.Solver.check

    def timed_check(self, *a):
        t = time.perf_counter()
        try:
            return orig_check(self, *a)
        finally:
            _STATS["solver_s"] += time.perf_counter() - t
            _STATS["queries"] += 1
    z3.Solver.check = timed_check


def run_one(idx):
    """executed inside a worker"""
    from engine import chplug
    _worker_init()
    ob = _OBS[idx]
    res = {"id": ob.id, "verdict": ERROR, "detail": "", "cex": None, "twin": None,
           "paths": 0, "completed": 0, "solver_s": 0.0, "queries": 0, "wall_s": 0.0}
    t0 = time.perf_counter()
    devnull = open(os.devnull, "w")
    saved = sys.stdout, sys.stderr
    try:
        if ob.struct_model:
            chplug.install_struct_model()
        else:
            chplug.uninstall_struct_model()
        chplug.OPAQUE_REPR[0] = bool(ob.opaque_repr)
        if ob.setup is not None:
            ob.setup()
        sys.stdout = sys.stderr = devnull  # xdis prints diagnostics; not the subject here
        for k in _STATS:
            _STATS[k] = 0
        _LAST_CEX[0] = None
        if ob.direct is not None:
            sys.stdout, sys.stderr = saved
            verdict, detail, cex, nq, st = ob.direct()
            res.update({"verdict": verdict, "detail": detail, "cex": cex, "twin": "reached", "paths": 1,
                        "completed": 1, "queries": nq, "solver_s": round(st, 3)})
            if cex is not None:
                res["cex_error"] = detail
            res["wall_s"] = round(time.perf_counter() - t0, 3)
            return res
        # reachability twin first
        tw = _analyze(_build(ob, True), min(ob.timeout, 20.0))
        twin_ok = any(s in ("POST_FAIL", "EXEC_ERR", "POST_ERR") and "twin-reached" in (m or "")
                      for s, m in tw)
        res["twin"] = "reached" if twin_ok else "NOT-REACHED %r" % (tw,)
        for k in _STATS:
            _STATS[k] = 0
        _LAST_CEX[0] = None
        out = _analyze(_build(ob, False), ob.timeout)
        states = [s for s, _ in out]
        res["paths"] = _STATS["started"]
        res["completed"] = _STATS["completed"]
        res["solver_s"] = round(_STATS["solver_s"], 3)
        res["queries"] = _STATS["queries"]
        res["detail"] = "; ".join("%s %s" % (s, (m or "")[:300]) for s, m in out)
        if any(s in ("POST_FAIL", "EXEC_ERR", "POST_ERR", "SYNTAX_ERR", "IMPORT_ERR") for s in states):
            res["verdict"] = REFUTED
            if _LAST_CEX[0] is not None:
                res["cex"], res["cex_error"] = _LAST_CEX[0]
        elif not twin_ok:
            res["verdict"] = ERROR
            res["detail"] = "vacuous: reachability twin not violated; " + res["detail"]
        elif states and all(s == "CONFIRMED" for s in states):
            if _STATS["completed"] == 0:
                res["verdict"] = ERROR
                res["detail"] = "vacuous: no path completed the body; " + res["detail"]
            else:
                res["verdict"] = CONFIRMED
        else:
            res["verdict"] = INCONCLUSIVE
    except BaseException as e:  # harness failure
        res["verdict"] = ERROR
        res["detail"] = "harness exception: " + "".join(
            traceback.format_exception_only(type(e), e))[:500] + traceback.format_exc()[-1500:]
    finally:
        sys.stdout, sys.stderr = saved
        devnull.close()
    res["wall_s"] = round(time.perf_counter() - t0, 3)
    return res


def _run_fresh(idx):
    """fork a child for one obligation; the child inherits the worker's image *before* any obligation ran in it only if
    the worker keeps itself clean: workers serving fresh obligations never execute obligations themselves"""
    import pickle
    r_fd, w_fd = os.pipe()
    pid = os.fork()
    if pid == 0:
        try:
            os.close(r_fd)
            res = run_one(idx)
            with os.fdopen(w_fd, "wb") as f:
                pickle.dump(res, f)
        finally:
            os._exit(0)
    os.close(w_fd)
    with os.fdopen(r_fd, "rb") as f:
        data = f.read()
    os.waitpid(pid, 0)
    if not data:
        return {"id": _OBS[idx].id, "verdict": ERROR, "detail": "fresh child produced no result", "cex": None, "twin": None,
                "paths": 0, "completed": 0, "solver_s": 0.0, "queries": 0, "wall_s": 0.0}
    return pickle.loads(data)


def _worker_main(task_q, result_q):
    sys.setrecursionlimit(10000)
    while True:
        try:
            idx = task_q.get()
        except (EOFError, KeyboardInterrupt):
            return
        if idx is None:
            return
        result_q.put(("start", idx, os.getpid(), time.time()))
        try:
            if _OBS[idx].fresh:
                r = _run_fresh(idx)
            else:
                r = run_one(idx)
        except BaseException as e:
            r = {"id": _OBS[idx].id, "verdict": ERROR, "detail": "worker exception %r" % (e,),
                 "cex": None, "twin": None, "paths": 0, "completed": 0, "solver_s": 0.0,
                 "queries": 0, "wall_s": 0.0}
        result_q.put(("done", idx, os.getpid(), r))


def run_obligations(obs, jobs=None, progress=None, order=None):
    """Run all obligations; returns list of result dicts in obligation order."""
    global _OBS
    _OBS = list(obs)
    n = len(_OBS)
    if n == 0:
        return []
    jobs = max(1, min(jobs or (os.cpu_count() or 4), n))
    _scratch()
    import atexit
    atexit.register(cleanup_scratch)
    ctx = mp.get_context("fork")
    task_q = ctx.Queue()
    result_q = ctx.Queue()
    idxs = list(order) if order is not None else list(range(n))
    # longest budgets first for better packing
    for i in idxs:
        task_q.put(i)
    workers = {}

    def spawn():
        p = ctx.Process(target=_worker_main, args=(task_q, result_q), daemon=True)
        p.start()
        workers[p.pid] = {"proc": p, "idx": None, "since": None}

    for _ in range(jobs):
        spawn()
    results = [None] * n
    done = 0
    while done < n:
        try:
            kind, idx, pid, payload = result_q.get(timeout=1.0)
        except _queue.Empty:
            kind = None
        now = time.time()
        if kind == "start":
            if pid in workers:
                workers[pid]["idx"] = idx
                workers[pid]["since"] = payload
        elif kind == "done":
            if results[idx] is None:
                results[idx] = payload
                done += 1
                if progress:
                    progress(payload, done, n)
            if pid in workers:
                workers[pid]["idx"] = None
        # hard deadlines / dead workers
        for pid, w in list(workers.items()):
            p = w["proc"]
            idx = w["idx"]
            if idx is not None and results[idx] is None:
                hard = _OBS[idx].timeout * 2.5 + 60
                if now - w["since"] > hard or not p.is_alive():
                    why = "hard wall-clock limit %.0fs" % hard if p.is_alive() else "worker died"
                    if p.is_alive():
                        p.kill()
                    p.join(1)
                    del workers[pid]
                    results[idx] = {"id": _OBS[idx].id, "verdict": INCONCLUSIVE,
                                    "detail": why, "cex": None, "twin": None, "paths": 0,
                                    "completed": 0, "solver_s": 0.0, "queries": 0,
                                    "wall_s": round(now - w["since"], 1)}
                    done += 1
                    if progress:
                        progress(results[idx], done, n)
                    spawn()
            elif not p.is_alive() and done < n:
                del workers[pid]
                spawn()
    for _ in workers:
        task_q.put(None)
    for w in workers.values():
        w["proc"].join(2)
        if w["proc"].is_alive():
            w["proc"].kill()
    return results
