"""Oracles taken from the interpreters installed in the sandbox.

* opcode_dump(ver): JSON dump of that interpreter's `opcode` module (+ code-object attribute
  surface, magic number), obtained by running the interpreter once per run.
* load_dis(ver): that interpreter's own `dis.py` *source*, exec'd in the host with a shim
  `opcode`/`_opcode` module built from the dump, so CPython's own pure-Python decoder can be
  executed symbolically next to xdis (R-src, DESIGN 2.6).
* run_in(ver, script, payload): run a small script in the real interpreter (R-real, replay).
"""
import json
import os
import subprocess
import sys
import types

PYENV = "/root/.pyenv/versions"
INTERPS = {}
for _d in sorted(os.listdir(PYENV)) if os.path.isdir(PYENV) else []:
    _v = tuple(int(x) for x in _d.split(".")[:2])
    _exe = os.path.join(PYENV, _d, "bin", "python")
    if os.path.exists(_exe):
        INTERPS[_v] = _exe

_DUMP_SCRIPT = r'''
import sys, json, opcode, types
def enc(v):
    if isinstance(v, (set, frozenset)):
        return {"__set__": sorted(enc(x) for x in v)}
    if isinstance(v, tuple):
        return {"__tuple__": [enc(x) for x in v]}
    if isinstance(v, list):
        return [enc(x) for x in v]
    if isinstance(v, dict):
        return {"__dict__": [[enc(k), enc(x)] for k, x in sorted(v.items(), key=lambda kv: repr(kv[0]))]}
    if isinstance(v, (int, str, bool)) or v is None:
        return v
    try:
        if isinstance(v, unicode): return v
        if isinstance(v, long): return int(v)
    except NameError:
        pass
    return {"__skip__": repr(type(v))}
d = {}
for k in dir(opcode):
    if k.startswith("__") and k != "__all__":
        continue
    d[k] = enc(getattr(opcode, k))
def f(a, b=1, *c, **d):
    x = lambda: a
    return x
co = f.__code__
out = {"opcode": d, "code_dir": [n for n in dir(co) if not n.startswith("__")],
       "version": list(sys.version_info[:3]), "code_doc": types.CodeType.__doc__}
try:
    import inspect
    out["code_sig"] = str(inspect.signature(types.CodeType))
except Exception:
    out["code_sig"] = None
try:
    import importlib.util
    out["magic"] = list(bytearray(importlib.util.MAGIC_NUMBER))
except Exception:
    import imp
    out["magic"] = list(bytearray(imp.get_magic()))
try:
    import dis
    out["dis_file"] = dis.__file__.replace(".pyc", ".py")
except Exception:
    pass
sys.stdout.write(json.dumps(out))
'''


def _dec(v):
    if isinstance(v, dict):
        if "__set__" in v:
            return frozenset(_dec(x) for x in v["__set__"])
        if "__tuple__" in v:
            return tuple(_dec(x) for x in v["__tuple__"])
        if "__dict__" in v:
            return {_dec(k): _dec(x) for k, x in v["__dict__"]}
        if "__skip__" in v:
            return None
    if isinstance(v, list):
        return [_dec(x) for x in v]
    return v


_DUMPS = {}


def opcode_dump(ver):
    """ver: (major, minor) of an installed interpreter"""
    ver = tuple(ver[:2])
    if ver not in _DUMPS:
        exe = INTERPS[ver]
        out = subprocess.run([exe, "-S", "-c", _DUMP_SCRIPT], stdout=subprocess.PIPE,
                             stderr=subprocess.PIPE, timeout=60)
        if out.returncode != 0:
            raise RuntimeError("dump failed for %r: %s" % (ver, out.stderr[-500:]))
        raw = json.loads(out.stdout.decode())
        raw["opcode"] = {k: _dec(v) for k, v in raw["opcode"].items()}
        _DUMPS[ver] = raw
    return _DUMPS[ver]


def preload(vers=None):
    for v in (vers or sorted(INTERPS)):
        opcode_dump(v)


_DIS = {}


def load_dis(ver):
    """exec CPython `ver`'s dis.py under the host with a shim opcode module. 3.6+ only."""
    ver = tuple(ver[:2])
    if ver in _DIS:
        return _DIS[ver]
    d = opcode_dump(ver)
    shim = types.ModuleType("opcode")
    for k, v in d["opcode"].items():
        if v is None and k not in ("__all__",):
            continue
        setattr(shim, k, v)
    shim.__all__ = list(d["opcode"].get("__all__") or [])

    def stack_effect(*a, **k):
        raise NotImplementedError("C function; not part of the R-src oracle")
    shim.stack_effect = stack_effect
    for name in shim.__all__:
        if not hasattr(shim, name):
            setattr(shim, name, None)
    shim2 = types.ModuleType("_opcode")
    shim2.stack_effect = stack_effect
    shim2.get_executor = lambda *a, **k: None
    shim2.get_specialization_stats = lambda: None
    src_path = d.get("dis_file") or os.path.join(
        PYENV, os.path.basename(os.path.dirname(os.path.dirname(INTERPS[ver]))),
        "lib", "python%d.%d" % ver, "dis.py")
    with open(src_path) as f:
        src = f.read()
    mod = types.ModuleType("dis_%d%d" % ver)
    mod.__file__ = src_path
    saved = {k: sys.modules.get(k) for k in ("opcode", "_opcode")}
    sys.modules["opcode"] = shim
    sys.modules["_opcode"] = shim2
    try:
        exec(compile(src, src_path, "exec"), mod.__dict__)
    finally:
        for k, v in saved.items():
            if v is None:
                sys.modules.pop(k, None)
            else:
                sys.modules[k] = v
    mod._shim_opcode = shim
    _DIS[ver] = mod
    return mod


def run_in(ver, script, payload=None, timeout=120):
    """run `script` (py2/py3-compatible source reading JSON from stdin, writing JSON to stdout)
    in the real interpreter `ver`."""
    exe = INTERPS[tuple(ver[:2])]
    inp = json.dumps(payload).encode() if payload is not None else b""
    out = subprocess.run([exe, "-S", "-c", script], input=inp, stdout=subprocess.PIPE,
                         stderr=subprocess.PIPE, timeout=timeout)
    if out.returncode != 0:
        raise RuntimeError("interpreter %r failed: %s" % (ver, out.stderr.decode(errors="replace")[-800:]))
    return json.loads(out.stdout.decode())


def src_instructions(ver, code, varnames=None, names=None, constants=None, cells=None,
                     localsplus=None, linestarts=None, line_offset=0, exception_entries=()):
    """Run CPython `ver`'s own dis._get_instructions_bytes *source* on `code` (may be symbolic).
    Returns a list of dicts: offset, opcode, opname, arg, argval, is_jump_target, starts_line.
    For 3.13 is_jump_target is computed per the 3.12 rule (offset in findlabels U handler
    targets), because 3.13's Instruction.is_jump_target also marks range starts/ends."""
    ver = tuple(ver[:2])
    dis = load_dis(ver)
    out = []
    if ver <= (3, 10):
        it = dis._get_instructions_bytes(code, varnames, names, constants, cells, linestarts, line_offset)
    elif ver <= (3, 12):
        vfo = None if localsplus is None else (lambda i: localsplus[i])
        it = dis._get_instructions_bytes(code, vfo, names, constants, linestarts, line_offset,
                                         exception_entries=exception_entries)
    else:
        vfo = None if localsplus is None else (lambda i: localsplus[i])
        ents = [dis._ExceptionTableEntry(*e) for e in exception_entries]
        labels_map = dis._make_labels_map(code, ents)
        res = dis.ArgResolver(co_consts=constants, names=names, varname_from_oparg=vfo, labels_map=labels_map)
        it = dis._get_instructions_bytes(code, linestarts=linestarts, line_offset=line_offset, arg_resolver=res)
        labels = set(dis.findlabels(code))
        for e in exception_entries:
            labels.add(e[2])
        for ins in it:
            sl = getattr(ins, "line_number", None) if getattr(ins, "starts_line", False) else None
            out.append({"offset": ins.offset, "opcode": ins.opcode, "opname": ins.opname, "arg": ins.arg,
                        "argval": ins.argval, "is_jump_target": ins.offset in labels, "starts_line": sl})
        return out
    for ins in it:
        out.append({"offset": ins.offset, "opcode": ins.opcode, "opname": ins.opname, "arg": ins.arg,
                    "argval": ins.argval, "is_jump_target": ins.is_jump_target, "starts_line": ins.starts_line})
    return out


_PY27_FUNCS = {}


def load_dis27():
    """findlabels / findlinestarts of CPython 2.7's dis.py (valid Python-3 syntax), exec'd with the
    2.7 opcode dump as globals and an `ord` that accepts ints (bytes indexing on 3.x)."""
    if _PY27_FUNCS:
        return _PY27_FUNCS
    d = opcode_dump((2, 7))
    path = d.get("dis_file") or os.path.join(PYENV, "2.7.18", "lib", "python2.7", "dis.py")
    with open(path) as f:
        src = f.read()
    import re
    g = dict(d["opcode"])

    def _ord(c):
        return c if not isinstance(c, (str, bytes)) else ord(c)
    g["ord"] = _ord
    for name in ("findlabels", "findlinestarts"):
        m = re.search(r"^def %s\(.*?(?=^def |\Z)" % name, src, re.S | re.M)
        chunk = m.group(0)
        fname = "<cpython2.7-dis:%s>" % name
        import linecache
        linecache.cache[fname] = (len(chunk), None, chunk.splitlines(True), fname)
        exec(compile(chunk, fname, "exec"), g)
        _PY27_FUNCS[name] = g[name]
    return _PY27_FUNCS
