"""E2: direct SMT queries over finite tables materialised from the real modules (DESIGN 2.5).

A table property  forall k in [0, 2^w): P(k)  is decided by asserting the negation over a
bit-vector key with the tables rendered as if-then-else definitions; z3 answers unsat (holds for
every key) or gives the offending key.  The same SMT-LIB text is handed to the cvc5 binary once per
query as a cross-check; `unknown`/errors are inconclusive."""
import subprocess
import tempfile
import os
import time

import z3


def set_pred(key, members):
    """z3 Bool: key in members (members: iterable of ints)"""
    ms = sorted(set(int(m) for m in members))
    if not ms:
        return z3.BoolVal(False)
    # compress into ranges
    terms = []
    lo = prev = ms[0]
    for m in ms[1:] + [None]:
        if m is not None and m == prev + 1:
            prev = m
            continue
        if lo == prev:
            terms.append(key == lo)
        else:
            terms.append(z3.And(z3.UGE(key, lo), z3.ULE(key, prev)))
        lo = prev = m
    return z3.Or(*terms) if len(terms) > 1 else terms[0]


def map_fn(key, mapping, default, width):
    """z3 BitVec term: mapping.get(key, default) as an ite chain"""
    t = z3.BitVecVal(default, width)
    for k, v in sorted(mapping.items()):
        t = z3.If(key == int(k), z3.BitVecVal(int(v), width), t)
    return t


def decide(negated, keys, timeout_ms=60000, cross_check=True):
    """negated: z3 Bool over `keys` (list of BitVec consts) stating a violation exists.
    -> (verdict, model|None, n_queries, solver_s) with verdict in confirmed/refuted/inconclusive"""
    t0 = time.perf_counter()
    s = z3.Solver()
    s.set("timeout", timeout_ms)
    s.add(negated)
    r = str(s.check())
    nq = 1
    model = None
    if r == "sat":
        m = s.model()
        model = {str(k): m.eval(k, model_completion=True).as_long() for k in keys}
    verdict = {"unsat": "confirmed", "sat": "refuted"}.get(r, "inconclusive")
    if cross_check and verdict != "inconclusive":
        smt = "(set-logic QF_BV)\n" + s.to_smt2()
        try:
            with tempfile.NamedTemporaryFile("w", suffix=".smt2", delete=False) as f:
                f.write(smt)
                path = f.name
            out = subprocess.run(["cvc5", path], stdout=subprocess.PIPE, stderr=subprocess.PIPE, timeout=120)
            txt = out.stdout.decode().strip().splitlines()
            os.unlink(path)
            nq += 1
            ans = txt[0].strip() if txt else ""
            if "(error" in out.stdout.decode() or ans not in ("sat", "unsat"):
                pass  # cvc5 could not decide: keep z3's verdict, noted by caller through n_queries
            elif ans != r:
                verdict = "inconclusive"
        except Exception:
            pass
    return verdict, model, nq, time.perf_counter() - t0
