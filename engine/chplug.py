"""CrossHair plugin for checking xdis: symbolic bit operations, no callee
short-circuiting, optional opaque repr of symbolic ints, pure-Python struct model.

Everything here changes only the *analysis engine* (CrossHair tables) or rebinds names
inside the harness process; nothing in /repo is modified.
"""
import operator as ops
import sys

_INSTALLED = False
OPAQUE_REPR = [False]   # toggled per obligation by the runner


def _runs(c):
    """maximal runs of set bits of non-negative int c -> [(lo, length)]"""
    out = []
    i = 0
    while c >> i:
        if (c >> i) & 1:
            lo = i
            while (c >> i) & 1:
                i += 1
            out.append((lo, i - lo))
        else:
            i += 1
    return out


def install():
    global _INSTALLED
    if _INSTALLED:
        return
    _INSTALLED = True
    import crosshair.core_and_libs  # noqa: F401  (must come first: registrations order)
    import crosshair.core as core
    import z3
    from crosshair.libimpl import builtinslib as B
    from crosshair.statespace import context_statespace
    from crosshair.tracers import NoTracing
    from crosshair.core import realize

    SymbolicInt = B.SymbolicInt

    # ---- 1. no short-circuiting: every xdis callee body is really executed -------------
    core.ShortCircuitingContext.make_interceptor = lambda self, original: original

    # ---- 2. bit operations ---------------------------------------------------------------
    def and_const(avar, c):
        """z3 Int term for (a & c), c a python int."""
        if c == 0:
            return z3.IntVal(0)
        if c < 0:
            # a & c == a - (a & ~c), ~c >= 0
            return avar - and_const(avar, ~c)
        total = None
        for lo, ln in _runs(c):
            t = avar
            if lo:
                t = t / z3.IntVal(1 << lo)
            t = t % z3.IntVal(1 << ln)
            if lo:
                t = t * z3.IntVal(1 << lo)
            total = t if total is None else total + t
        return total

    _KS = (8, 16, 6, 7, 24, 32, 15, 30, 3, 4, 1, 2, 5)

    def and_symsym(space, x, y):
        """z3 term for x & y with both symbolic, or None if no rule applies."""
        for k in _KS:
            m = z3.IntVal(1 << k)
            for p, q in ((x, y), (y, x)):
                # p in [0, 2^k) and q multiple of 2^k  =>  p & q == 0
                if not space.is_possible(z3.Or(p < 0, p >= m, q % m != 0)):
                    return z3.IntVal(0)
        return None

    def h_and(op, a, b):
        with NoTracing():
            sa, sb = isinstance(a, SymbolicInt), isinstance(b, SymbolicInt)
            if sa and not sb:
                return SymbolicInt(and_const(a.var, int(b)))
            if sb and not sa:
                return SymbolicInt(and_const(b.var, int(a)))
            space = context_statespace()
            r = and_symsym(space, a.var, b.var)
            if r is not None:
                return SymbolicInt(r)
        # fall back: realise one side (sound: CrossHair forks on the value)
        bb = realize(b)
        with NoTracing():
            return SymbolicInt(and_const(a.var, bb))

    def _term(v):
        return v.var if isinstance(v, SymbolicInt) else z3.IntVal(int(v))

    def h_or(op, a, b):
        r = h_and(ops.and_, a, b)
        with NoTracing():
            return SymbolicInt(_term(a) + _term(b) - _term(r))

    def h_xor(op, a, b):
        r = h_and(ops.and_, a, b)
        with NoTracing():
            return SymbolicInt(_term(a) + _term(b) - 2 * _term(r))

    for fn, op in ((h_and, ops.and_), (h_or, ops.or_), (h_xor, ops.xor)):
        for ta, tb in ((SymbolicInt, int), (int, SymbolicInt), (SymbolicInt, SymbolicInt)):
            B._BIN_OPS_SEARCH_ORDER.append((op, ta, tb, fn))
    B._BIN_OPS.clear()

    # ---- 3. opaque repr/str of symbolic ints (toggle) --------------------------------------
    _orig_repr = SymbolicInt.__repr__
    _orig_str = getattr(SymbolicInt, "__str__", None)
    _orig_format = getattr(SymbolicInt, "__format__", None)

    def _repr(self):
        if OPAQUE_REPR[0]:
            return "<symint>"
        return _orig_repr(self)

    def _str(self):
        if OPAQUE_REPR[0]:
            return "<symint>"
        if _orig_str is not None:
            return _orig_str(self)
        return _orig_repr(self)

    def _format(self, spec):
        if OPAQUE_REPR[0]:
            return "<symint>"
        if _orig_format is not None:
            return _orig_format(self, spec)
        return format(realize(self), spec)

    SymbolicInt.__repr__ = _repr
    SymbolicInt.__str__ = _str
    SymbolicInt.__format__ = _format

    # builtin format()/f-strings: CrossHair's patch deep-realises the operand first
    _ch_format = core._PATCH_REGISTRATIONS.get(format)

    def _patched_format(obj, format_spec=""):
        if OPAQUE_REPR[0]:
            with NoTracing():
                if isinstance(obj, SymbolicInt):
                    return "<symint>"
        return _ch_format(obj, format_spec)

    if _ch_format is not None:
        core._PATCH_REGISTRATIONS[format] = _patched_format


# ---------------------------------------------------------------------------------------------
# struct model (little endian integer formats used by xdis); installed by rebinding names.

_SIZES = {"b": 1, "B": 1, "h": 2, "H": 2, "i": 4, "I": 4, "l": 4, "L": 4, "q": 8, "Q": 8, "c": 1}


def _parse_fmt(fmt):
    f = fmt
    if f and f[0] in "<=>!@":
        order, f = f[0], f[1:]
    else:
        order = "@"
    if order in ">!":
        raise NotImplementedError(fmt)
    items = []
    num = ""
    for ch in f:
        if ch.isdigit():
            num += ch
            continue
        n = int(num) if num else 1
        num = ""
        if ch not in _SIZES:
            raise NotImplementedError(fmt)
        items.extend([ch] * n)
    return items


def model_calcsize(fmt):
    return sum(_SIZES[c] for c in _parse_fmt(fmt))


def model_unpack(fmt, data):
    """Pure-Python struct.unpack for '<'/'='/native little-endian integer formats.
    Float formats fall through to the real struct (bytes get realised)."""
    import struct as _struct
    if "d" in fmt or "f" in fmt:
        return _struct.unpack(fmt, bytes(data))
    items = _parse_fmt(fmt)
    need = sum(_SIZES[c] for c in items)
    if len(data) != need:
        raise _struct.error("unpack requires a buffer of %d bytes" % need)
    out = []
    pos = 0
    for ch in items:
        n = _SIZES[ch]
        if ch == "c":
            out.append(bytes(data[pos:pos + 1]))
            pos += 1
            continue
        v = 0
        for k in range(n):
            v = v + data[pos + k] * (1 << (8 * k))
        pos += n
        if ch in "bhilq":
            # branch-free two's complement (a comparison would fork the path per field)
            v = v - (1 << (8 * n)) * (v // (1 << (8 * n - 1)))
        out.append(v)
    return tuple(out)


def model_pack(fmt, *vals):
    import struct as _struct
    if "d" in fmt or "f" in fmt:
        return _struct.pack(fmt, *vals)
    items = _parse_fmt(fmt)
    if len(items) != len(vals):
        raise _struct.error("pack expected %d items" % len(items))
    out = []
    for ch, v in zip(items, vals):
        n = _SIZES[ch]
        if ch == "c":
            if not isinstance(v, bytes) or len(v) != 1:
                raise _struct.error("char format requires a bytes object of length 1")
            out.append(v[0])
            continue
        if not isinstance(v, int):
            raise _struct.error("required argument is not an integer")
        if ch in "bhilq":
            lim = 1 << (8 * n - 1)
            if not (-lim <= v < lim):
                raise _struct.error("argument out of range")
            if v < 0:
                v = v + (1 << (8 * n))
        else:
            if not (0 <= v < (1 << (8 * n))):
                raise _struct.error("argument out of range")
        for k in range(n):
            out.append((v // (1 << (8 * k))) % 256)
    return mkbytes(out)


def concretise(chunk):
    """a chunk whose elements are all concrete becomes real bytes, so that C-level behaviour (decode, float())
    is the interpreter's own and not CrossHair's model of it"""
    try:
        from crosshair.tracers import NoTracing, is_tracing
    except ImportError:
        return chunk
    if not is_tracing():
        return chunk
    with NoTracing():
        inner = getattr(chunk, "inner", None)
        if isinstance(inner, list) and all(type(x) is int for x in inner):
            return bytes(inner)
    return chunk


class _StructShim:
    """stands in for the `struct` module inside xdis modules that do `import struct`."""
    def __init__(self):
        import struct as _s
        self.error = _s.error
        self.iter_unpack = _s.iter_unpack
    unpack = staticmethod(model_unpack)
    pack = staticmethod(model_pack)
    calcsize = staticmethod(model_calcsize)


def install_struct_model():
    """Rebind struct names in xdis namespaces (harness process only)."""
    import xdis.unmarshal, xdis.load, xdis.magics, xdis.marsh
    xdis.unmarshal.unpack = model_unpack
    xdis.load.unpack = model_unpack
    xdis.load.pack = model_pack
    shim = _StructShim()
    xdis.magics.struct = shim
    xdis.marsh.struct = shim


def uninstall_struct_model():
    import struct
    import xdis.unmarshal, xdis.load, xdis.magics, xdis.marsh
    xdis.unmarshal.unpack = struct.unpack
    xdis.load.unpack = struct.unpack
    xdis.load.pack = struct.pack
    xdis.magics.struct = struct
    xdis.marsh.struct = struct


# ---------------------------------------------------------------------------------------------
# carriers

def mkbytes(items):
    """bytes carrier: concrete length, elements symbolic or concrete ints.  Under CrossHair
    tracing this is a SymbolicBytes over a plain Python list (isinstance(x, bytes) holds,
    .decode/ord/slicing work, z3 only sees the element Ints); otherwise real bytes."""
    items = list(items)
    try:
        from crosshair.tracers import is_tracing, NoTracing
    except ImportError:
        return bytes(items)
    if not is_tracing():
        return bytes(int(x) for x in items)
    from crosshair.libimpl.builtinslib import SymbolicBytes
    with NoTracing():
        # nothing symbolic in it: real bytes, so that whatever the code under test does with them (decode with an error
        # handler, hashing, C-level parsing) is the interpreter's behaviour and not CrossHair's model of it
        if all(type(x) is int for x in items):
            return bytes(items)
        return SymbolicBytes(items)


class SymReader:
    """file-like reader over a SymBytes/bytes; .pos observable. read() past the end returns
    short data like io.BytesIO."""

    def __init__(self, data, pos=0, native_small=True):
        self.data = data
        self.pos = pos
        self.max_pos = pos
        self.native_small = native_small

    def read(self, n=-1):
        if n is None or n < 0:
            n = len(self.data) - self.pos
        end = self.pos + n
        if end > len(self.data):
            end = len(self.data)
        chunk = self.data[self.pos:end]
        self.pos = end
        return concretise(chunk)

    def tell(self):
        return self.pos

    def seek(self, pos, whence=0):
        if whence == 0:
            self.pos = pos
        elif whence == 1:
            self.pos += pos
        else:
            self.pos = len(self.data) + pos
        return self.pos

    def close(self):
        pass
