"""Soundness lemmas for the rewrite rules of engine/chplug.py, discharged by the solver on every run
(QF_BV, several widths; z3, cross-checked by cvc5 through engine.smt.decide).  A failed lemma is a harness error."""
import z3


def _runs(c):
    out, i = [], 0
    while c >> i:
        if (c >> i) & 1:
            lo = i
            while (c >> i) & 1:
                i += 1
            out.append((lo, i - lo))
        else:
            i += 1
    return out


def lemmas():
    """yield (name, negated z3 formula, vars)"""
    for w in (8, 16, 32, 64):
        a, b = z3.BitVecs("a b", w)
        yield ("or = a+b-(a&b) /%d" % w, (a | b) != a + b - (a & b), [a, b])
        yield ("xor = a+b-2(a&b) /%d" % w, (a ^ b) != a + b - 2 * (a & b), [a, b])
        for k in (1, 3, 6, 7, 8, 15, 16, 24):
            if k >= w:
                continue
            m = z3.BitVecVal((1 << k) - 1, w)
            yield ("aligned-disjoint k=%d /%d" % (k, w),
                   z3.And(z3.ULT(a, z3.BitVecVal(1 << k, w)), (b & m) == 0, (a & b) != 0), [a, b])
        for c in (0x0F, 0x80, 0x7F, 0x40, 0x3F, 0x78, 0x07, 0x60, 0x20, 0x1F, 0xFE, 0x81):
            if c >= (1 << w):
                continue
            total = z3.BitVecVal(0, w)
            for lo, ln in _runs(c):
                # ((a div 2^lo) mod 2^len) * 2^lo, with div/mod as unsigned BV operations
                total = total + z3.URem(z3.UDiv(a, z3.BitVecVal(1 << lo, w)), z3.BitVecVal(1 << ln, w)) * z3.BitVecVal(1 << lo, w)
            yield ("and-const 0x%x by runs /%d" % (c, w), (a & z3.BitVecVal(c, w)) != total, [a])
    # branch-free sign extension used by the struct model and the reference models: v - 2^n * (v div 2^(n-1))
    for n in (16, 32):
        v = z3.BitVec("v", 64)
        inrange = z3.ULT(v, z3.BitVecVal(1 << n, 64))
        signed = z3.SignExt(64 - n, z3.Extract(n - 1, 0, v))
        formula = v - z3.BitVecVal(1 << n, 64) * z3.UDiv(v, z3.BitVecVal(1 << (n - 1), 64))
        yield ("branch-free sign extension of %d bits" % n, z3.And(inrange, signed != formula), [v])


def prove_all():
    """-> (n_proved, n_queries, solver_s, failures)"""
    from engine import smt
    n = q = 0
    t = 0.0
    failures = []
    for name, neg, vs in lemmas():
        verdict, model, nq, st = smt.decide(neg, vs, timeout_ms=30000, cross_check=(n % 7 == 0))
        q += nq
        t += st
        if verdict != "confirmed":
            failures.append("%s: %s %r" % (name, verdict, model))
        else:
            n += 1
    return n, q, t, failures
