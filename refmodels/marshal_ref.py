"""R-model of CPython's marshal reader (Python/marshal.c r_object), per format family.

Works on concrete bytes or on CrossHair carriers whose *type codes, flags and length fields* may be
symbolic only where the caller keeps them concrete (the model dispatches on them with ordinary
Python control flow).  Values are returned as tagged tuples so that kind and value can be compared
without relying on host types:

  ('none',) ('true',) ('false',) ('ellipsis',) ('stopiter',) ('null',)
  ('int', v) ('float', f) ('complex', re, im)
  ('bytes', seq)           py3 bytes
  ('str', seq, enc)        py3 text: raw payload bytes + encoding ('utf8sp' surrogatepass / 'ascii')
  ('s2', seq)              py2 str (raw bytes)
  ('u2', seq)              py2 unicode (raw utf-8 payload)
  ('tuple', [..]) ('list', [..]) ('set', [..]) ('frozenset', [..]) ('dict', [(k, v)..])
  ('code', {field: tagged})

The model is validated against the real interpreters (validate()/real_loads()) on every run."""


class BadMarshal(Exception):
    pass


class Ctx:
    def __init__(self, version):
        """version: (major, minor) of the producing Python"""
        self.version = tuple(version[:2])
        self.py3 = self.version >= (3, 0)
        self.refs = []
        self.strings = []   # py2 interned strings
        self.has_refs = self.version >= (3, 4)


def _u8(d, p):
    if p >= len(d):
        raise BadMarshal("EOF")
    return d[p], p + 1


def _i16(d, p):
    if p + 2 > len(d):
        raise BadMarshal("EOF")
    v = d[p] + 256 * d[p + 1]
    v = v - 65536 * (v // 32768)     # branch-free sign extension
    return v, p + 2


def _i32(d, p):
    if p + 4 > len(d):
        raise BadMarshal("EOF")
    v = d[p] + 256 * d[p + 1] + 65536 * d[p + 2] + 16777216 * d[p + 3]
    v = v - 4294967296 * (v // 2147483648)     # branch-free sign extension
    return v, p + 4


def _i64(d, p):
    if p + 8 > len(d):
        raise BadMarshal("EOF")
    lo = d[p] + 256 * d[p + 1] + 65536 * d[p + 2] + 16777216 * d[p + 3]
    hi, p = _i32(d, p + 4)
    return hi * 4294967296 + lo, p


def _take(d, p, n):
    if n < 0 or p + n > len(d):
        raise BadMarshal("EOF/size")
    return d[p:p + n], p + n


def _float_text(seq):
    s = bytes(bytearray(int(x) for x in seq))
    try:
        return float(s.decode("latin-1"))
    except ValueError:
        raise BadMarshal("float text")


def load(d, p, ctx):
    """-> (tagged value, new position)"""
    code, p = _u8(d, p)
    flag = False
    if ctx.has_refs and code >= 128:
        flag = True
        code = code - 128
    t = chr(code)

    def ref(v):
        if flag:
            ctx.refs.append(v)
        return v

    if t == "0":
        return ("null",), p
    if t == "N":
        return ("none",), p
    if t == "F":
        return ("false",), p
    if t == "T":
        return ("true",), p
    if t == "S":
        return ("stopiter",), p
    if t == ".":
        return ("ellipsis",), p
    if t == "i":
        v, p = _i32(d, p)
        return ref(("int", v)), p
    if t == "I" and ctx.version < (3, 4):
        v, p = _i64(d, p)
        return ref(("int", v)), p
    if t == "l":
        n, p = _i32(d, p)
        size = -n if n < 0 else n
        val = 0
        last = None
        for j in range(size):
            dg, p = _i16(d, p)
            if dg < 0:
                raise BadMarshal("digit out of range")
            val = val + dg * (1 << (15 * j))
            last = dg
        if size and last == 0:
            raise BadMarshal("unnormalized long")
        if n < 0:
            val = -val
        return ref(("int", val)), p
    if t == "f":
        n, p = _u8(d, p)
        s, p = _take(d, p, n)
        return ref(("float", _float_text(s))), p
    if t == "g" and ctx.version >= (2, 5):
        s, p = _take(d, p, 8)
        import struct
        return ref(("float", struct.unpack("<d", bytes(bytearray(int(x) for x in s)))[0])), p
    if t == "x":
        if ctx.version <= (2, 3) or (ctx.version == (2, 4)):
            pass
        out = []
        for _ in range(2):
            if ctx.version < (2, 5) and False:
                pass
            n, p = _u8(d, p)
            s, p = _take(d, p, n)
            out.append(_float_text(s))
        return ref(("complex", out[0], out[1])), p
    if t == "y" and ctx.version >= (2, 5):
        import struct
        s, p = _take(d, p, 16)
        b = bytes(bytearray(int(x) for x in s))
        return ref(("complex", struct.unpack("<d", b[:8])[0], struct.unpack("<d", b[8:])[0])), p
    if t == "s":
        n, p = _i32(d, p)
        s, p = _take(d, p, n)
        return ref(("bytes", s) if ctx.py3 else ("s2", s)), p
    if t == "t":
        n, p = _i32(d, p)
        s, p = _take(d, p, n)
        if ctx.py3:
            if not ctx.has_refs:
                raise BadMarshal("bad type")
            return ref(("str", s, "utf8sp")), p
        if ctx.version < (2, 4):
            raise BadMarshal("bad type")
        v = ("s2", s)
        ctx.strings.append(v)
        return v, p
    if t == "R" and not ctx.py3 and ctx.version >= (2, 4):
        n, p = _i32(d, p)
        if n < 0 or n >= len(ctx.strings):
            raise BadMarshal("string ref")
        return ctx.strings[n], p
    if t == "u":
        n, p = _i32(d, p)
        s, p = _take(d, p, n)
        return ref(("str", s, "utf8sp") if ctx.py3 else ("u2", s)), p
    if t in "aA" and ctx.has_refs:
        n, p = _i32(d, p)
        s, p = _take(d, p, n)
        return ref(("str", s, "ascii")), p
    if t in "zZ" and ctx.has_refs:
        n, p = _u8(d, p)
        s, p = _take(d, p, n)
        return ref(("str", s, "ascii")), p
    if t in "()" and (t == "(" or ctx.has_refs):
        if t == ")":
            n, p = _u8(d, p)
        else:
            n, p = _i32(d, p)
        if n < 0:
            raise BadMarshal("size")
        items = []
        v = ("tuple", items)
        ref(v)
        for _ in range(n):
            it, p = load(d, p, ctx)
            if it[0] == "null":
                raise BadMarshal("NULL in tuple")
            items.append(it)
        return v, p
    if t == "[":
        n, p = _i32(d, p)
        if n < 0:
            raise BadMarshal("size")
        items = []
        v = ("list", items)
        ref(v)
        for _ in range(n):
            it, p = load(d, p, ctx)
            if it[0] == "null":
                raise BadMarshal("NULL in list")
            items.append(it)
        return v, p
    if t == "{":
        pairs = []
        v = ("dict", pairs)
        ref(v)
        while True:
            k, p = load(d, p, ctx)
            if k[0] == "null":
                break
            val, p = load(d, p, ctx)
            if val[0] == "null":
                raise BadMarshal("NULL value in dict")
            pairs.append((k, val))
        return v, p
    if t in "<>" and ctx.version >= (2, 5):
        n, p = _i32(d, p)
        if n < 0:
            raise BadMarshal("size")
        items = []
        v = ("set" if t == "<" else "frozenset", items)
        idx = None
        if t == "<":
            ref(v)
        elif flag:
            idx = len(ctx.refs)
            ctx.refs.append(None)
        for _ in range(n):
            it, p = load(d, p, ctx)
            if it[0] == "null":
                raise BadMarshal("NULL in set")
            items.append(it)
        if idx is not None:
            ctx.refs[idx] = v
        return v, p
    if t == "r" and ctx.has_refs:
        n, p = _i32(d, p)
        if n < 0 or n >= len(ctx.refs) or ctx.refs[n] is None:
            raise BadMarshal("invalid reference")
        return ctx.refs[n], p
    if t == "c":
        idx = None
        if flag:
            idx = len(ctx.refs)
            ctx.refs.append(None)
        f, p = load_code_fields(d, p, ctx)
        v = ("code", f)
        if idx is not None:
            ctx.refs[idx] = v
        return v, p
    raise BadMarshal("bad marshal data (unknown type code %r)" % t)


def load_code_fields(d, p, ctx):
    v = ctx.version
    f = {}

    def num(name, wide):
        nonlocal p
        if wide:
            f[name], p = _i32(d, p)
        else:
            f[name], p = _i16(d, p)
        f[name] = ("int", f[name])

    def obj(name):
        nonlocal p
        f[name], p = load(d, p, ctx)
        if f[name][0] == "null":
            raise BadMarshal("NULL field")

    wide = v >= (2, 3)
    if v >= (1, 3):
        num("co_argcount", wide)
    if v >= (3, 8):
        num("co_posonlyargcount", True)
    if v >= (3, 0):
        num("co_kwonlyargcount", True)
    if (1, 3) <= v < (3, 11):
        num("co_nlocals", wide)
    if v >= (1, 5):
        num("co_stacksize", wide)
    if v >= (1, 3):
        num("co_flags", wide)
    obj("co_code")
    obj("co_consts")
    obj("co_names")
    if v >= (3, 11):
        obj("co_localsplusnames")
        obj("co_localspluskinds")
        obj("co_filename")
        obj("co_name")
        obj("co_qualname")
        num("co_firstlineno", True)
        obj("co_linetable")
        obj("co_exceptiontable")
    else:
        if v >= (1, 3):
            obj("co_varnames")
        if v >= (2, 0):
            obj("co_freevars")
            obj("co_cellvars")
        obj("co_filename")
        obj("co_name")
        if v >= (1, 5):
            num("co_firstlineno", wide)
            obj("co_lnotab")
    return f, p


# ------------------------------------------------------------------------------------------------
# comparison of an xdis result with a tagged reference value (symbolic-safe: no hashing)

def seq_eq(a, b):
    if len(a) != len(b):
        return False
    for x, y in zip(a, b):
        if not (x == y):
            return False
    return True


def _why(path, msg):
    return "%s: %s" % (path or "<top>", msg)


def match(xv, rv, path="", py3=True, code_fields=None):
    """None if xdis value xv equals reference rv in kind and value, else a description."""
    from xdis.codetype.base import CodeBase
    k = rv[0]
    if k == "none":
        return None if xv is None else _why(path, "expected None, got %r" % (xv,))
    if k == "null":
        return _why(path, "NULL outside a dict")
    if k == "true":
        return None if xv is True else _why(path, "expected True, got %r" % (xv,))
    if k == "false":
        return None if xv is False else _why(path, "expected False, got %r" % (xv,))
    if k == "ellipsis":
        return None if xv is Ellipsis else _why(path, "expected Ellipsis, got %r" % (xv,))
    if k == "stopiter":
        return None if xv is StopIteration else _why(path, "expected StopIteration, got %r" % (xv,))
    if k == "int":
        if isinstance(xv, bool) or not isinstance(xv, int):
            return _why(path, "expected int, got %s" % type(xv).__name__)
        return None if xv == rv[1] else _why(path, "int value %r != %r" % (xv, rv[1]))
    if k == "float":
        if not isinstance(xv, float):
            return _why(path, "expected float, got %s" % type(xv).__name__)
        return None if _feq(xv, rv[1]) else _why(path, "float %r != %r" % (xv, rv[1]))
    if k == "complex":
        if not isinstance(xv, complex):
            return _why(path, "expected complex, got %s" % type(xv).__name__)
        return None if _feq(xv.real, rv[1]) and _feq(xv.imag, rv[2]) else _why(path, "complex %r != (%r,%r)" % (xv, rv[1], rv[2]))
    if k == "bytes":
        if not isinstance(xv, bytes):
            return _why(path, "expected bytes, got %s %r" % (type(xv).__name__, xv))
        return None if seq_eq(xv, rv[1]) else _why(path, "bytes %r != %r" % (xv, rv[1]))
    if k == "str":
        if not isinstance(xv, str):
            return _why(path, "expected text, got %s %r" % (type(xv).__name__, xv))
        raw = bytes(bytearray(int(x) for x in rv[1]))
        try:
            want = raw.decode("ascii" if rv[2] == "ascii" else "utf-8", "strict" if rv[2] == "ascii" else "surrogatepass")
        except UnicodeDecodeError:
            if rv[2] == "ascii":
                want = raw.decode("latin-1")  # CPython: PyUnicode_FromKindAndData(1BYTE) - no check
            else:
                raise BadMarshal("undecodable text")
        return None if xv == want else _why(path, "text %r != %r" % (xv, want))
    if k == "s2":
        raw = bytes(bytearray(int(x) for x in rv[1]))
        if code_fields == "co_code":
            return None if isinstance(xv, bytes) and xv == raw else _why(path, "co_code %r != %r" % (xv, raw))
        # xdis's documented convention for Python-2 str on a Python-3 host: text when UTF-8, else bytes
        try:
            want = raw.decode("utf-8")
        except UnicodeDecodeError:
            want = raw
        if type(want) is str:
            ok = (isinstance(xv, str) and xv == want) or (isinstance(xv, bytes) and seq_eq(xv, raw))
        else:
            ok = isinstance(xv, bytes) and seq_eq(xv, want)
        return None if ok else _why(path, "py2 str %r decoded as %r (want %r)" % (raw, xv, want))
    if k == "u2":
        raw = bytes(bytearray(int(x) for x in rv[1]))
        val = getattr(xv, "value", None)
        if not isinstance(xv, str):
            return _why(path, "expected py2 unicode wrapper, got %s" % type(xv).__name__)
        if val is not None:
            return None if val == raw else _why(path, "py2 unicode payload %r != %r" % (val, raw))
        return None if xv == raw.decode("utf-8", "surrogatepass") else _why(path, "py2 unicode %r != %r" % (xv, raw))
    if k in ("tuple", "list"):
        want_t = tuple if k == "tuple" else list
        if type(xv) is not want_t:
            return _why(path, "expected %s, got %s %r" % (k, type(xv).__name__, xv))
        if len(xv) != len(rv[1]):
            return _why(path, "%s length %d != %d" % (k, len(xv), len(rv[1])))
        for i, (a, b) in enumerate(zip(xv, rv[1])):
            r = match(a, b, "%s[%d]" % (path, i), py3)
            if r:
                return r
        return None
    if k in ("set", "frozenset"):
        want_t = set if k == "set" else frozenset
        if type(xv) is not want_t:
            return _why(path, "expected %s, got %s %r" % (k, type(xv).__name__, xv))
        xs = list(xv)
        used = [False] * len(xs)
        distinct = []
        for b in rv[1]:
            if not any(_tag_eq(b, c) for c in distinct):
                distinct.append(b)
        if len(xs) != len(distinct):
            return _why(path, "%s size %d != %d" % (k, len(xs), len(distinct)))
        for b in distinct:
            hit = False
            for i, a in enumerate(xs):
                if not used[i] and match(a, b, path, py3) is None:
                    used[i] = True
                    hit = True
                    break
            if not hit:
                return _why(path, "%s element %r missing in %r" % (k, b, xv))
        return None
    if k == "dict":
        if type(xv) is not dict:
            return _why(path, "expected dict, got %s" % type(xv).__name__)
        pairs = []
        for kk, vv in rv[1]:   # later duplicates of a key overwrite
            pairs = [(a, b) for (a, b) in pairs if not _tag_eq(a, kk)] + [(kk, vv)]
        if len(xv) != len(pairs):
            return _why(path, "dict size %d != %d (%r)" % (len(xv), len(pairs), xv))
        items = list(xv.items())
        for kk, vv in pairs:
            hit = False
            for a, b in items:
                if match(a, kk, path, py3) is None:
                    r = match(b, vv, "%s[%r]" % (path, a), py3)
                    if r:
                        return r
                    hit = True
                    break
            if not hit:
                return _why(path, "dict key %r missing in %r" % (kk, xv))
        return None
    if k == "code":
        if not isinstance(xv, CodeBase):
            return _why(path, "expected code object, got %s" % type(xv).__name__)
        return match_code(xv, rv[1], path, py3)
    return _why(path, "unknown reference kind %r" % (k,))


def _feq(a, b):
    if a != a or b != b:
        return a != a and b != b
    if a == 0 and b == 0:
        import math
        return math.copysign(1, a) == math.copysign(1, b)
    return a == b


def _tag_eq(a, b):
    """structural equality of two tagged values, as Python == would see the real objects"""
    if a[0] != b[0]:
        if {a[0], b[0]} <= {"true", "false", "int"}:
            return _as_int(a) == _as_int(b)
        return False
    if a[0] in ("int",):
        return a[1] == b[1]
    if a[0] in ("bytes", "s2", "u2"):
        return seq_eq(a[1], b[1])
    if a[0] == "str":
        return seq_eq(a[1], b[1])
    if a[0] in ("tuple", "list", "frozenset", "set"):
        return len(a[1]) == len(b[1]) and all(_tag_eq(x, y) for x, y in zip(a[1], b[1]))
    if a[0] in ("float",):
        return a[1] == b[1]
    if a[0] == "complex":
        return a[1] == b[1] and a[2] == b[2]
    if a[0] in ("code", "dict"):
        return a is b
    return True


def _as_int(t):
    return {"true": 1, "false": 0}.get(t[0], t[1] if len(t) > 1 else None)


CO_FAST_LOCAL, CO_FAST_CELL, CO_FAST_FREE = 0x20, 0x40, 0x80


def match_code(xc, f, path, py3):
    """field-by-field comparison of an xdis portable code object with reference fields"""
    f = dict(f)
    if "co_localsplusnames" in f:
        names = f.pop("co_localsplusnames")
        kinds = f.pop("co_localspluskinds")
        if names[0] != "tuple" or kinds[0] != "bytes" or len(names[1]) != len(kinds[1]):
            raise BadMarshal("localsplus")
        vn, cv, fv = [], [], []
        for nm, kd in zip(names[1], kinds[1]):
            if (kd // CO_FAST_LOCAL) % 2:
                vn.append(nm)
            if (kd // CO_FAST_CELL) % 2:
                cv.append(nm)
            if (kd // CO_FAST_FREE) % 2:
                fv.append(nm)
        f["co_varnames"] = ("tuple", vn)
        f["co_cellvars"] = ("tuple", cv)
        f["co_freevars"] = ("tuple", fv)
        f["co_nlocals"] = ("int", len(vn))
    if "co_linetable" in f:
        lt = f.pop("co_linetable")
        f["co_linetable"] = lt
    for name, rv in f.items():
        attr = name
        if name == "co_lnotab" and not hasattr(xc, "co_lnotab") and hasattr(xc, "co_linetable"):
            attr = "co_linetable"   # 3.10: the marshalled field *is* the line table
        if not hasattr(xc, attr):
            return _why(path, "code object lacks %s" % attr)
        r = match(getattr(xc, attr), rv, "%s.%s" % (path, attr), py3, code_fields=name)
        if r:
            return r
    return None


# ------------------------------------------------------------------------------------------------
# real interpreters (R-real)

_REAL = r'''
import sys, json, marshal, types, struct
PY3 = sys.version_info[0] >= 3
def tag(v):
    if v is None: return ["none"]
    if v is True: return ["true"]
    if v is False: return ["false"]
    if v is Ellipsis: return ["ellipsis"]
    if v is StopIteration: return ["stopiter"]
    if isinstance(v, int) or (not PY3 and isinstance(v, long)): return ["int", str(int(v))]
    if isinstance(v, float): return ["float", list(bytearray(struct.pack("<d", v)))]
    if isinstance(v, complex): return ["complex", list(bytearray(struct.pack("<d", v.real))), list(bytearray(struct.pack("<d", v.imag)))]
    if PY3 and isinstance(v, bytes): return ["bytes", list(v)]
    if PY3 and isinstance(v, str): return ["str", list(v.encode("utf-8", "surrogatepass"))]
    if not PY3 and isinstance(v, str): return ["s2", list(bytearray(v))]
    if not PY3 and isinstance(v, unicode): return ["u2", list(bytearray(v.encode("utf-8")))]
    if isinstance(v, tuple): return ["tuple", [tag(x) for x in v]]
    if isinstance(v, list): return ["list", [tag(x) for x in v]]
    if isinstance(v, frozenset): return ["frozenset", sorted([tag(x) for x in v], key=repr)]
    if isinstance(v, set): return ["set", sorted([tag(x) for x in v], key=repr)]
    if isinstance(v, dict): return ["dict", [[tag(k), tag(x)] for k, x in v.items()]]
    if isinstance(v, types.CodeType):
        f = {}
        for n in dir(v):
            if n.startswith("co_") and not callable(getattr(v, n)):
                f[n] = tag(getattr(v, n))
        return ["code", f]
    return ["other", repr(type(v))]
req = json.loads(sys.stdin.read())
out = []
for data in req:
    b = bytes(bytearray(data))
    try:
        v = marshal.loads(b)
        out.append({"ok": tag(v)})
    except Exception as e:
        out.append({"err": "%s: %s" % (type(e).__name__, e)})
sys.stdout.write(json.dumps(out))
'''


def real_loads(ver, datas):
    from engine import oracles
    return oracles.run_in(ver, _REAL, [list(bytearray(d)) for d in datas])


def tag_json(v):
    """tagged value of an *xdis result* (host objects), same JSON shape as the real dump"""
    import struct
    from xdis.codetype.base import CodeBase
    if v is None:
        return ["none"]
    if v is True:
        return ["true"]
    if v is False:
        return ["false"]
    if v is Ellipsis:
        return ["ellipsis"]
    if v is StopIteration:
        return ["stopiter"]
    if isinstance(v, int):
        return ["int", str(int(v))]
    if isinstance(v, float):
        return ["float", list(struct.pack("<d", v))]
    if isinstance(v, complex):
        return ["complex", list(struct.pack("<d", v.real)), list(struct.pack("<d", v.imag))]
    if isinstance(v, bytes):
        return ["bytes", list(v)]
    if isinstance(v, str):
        val = getattr(v, "value", None)
        if isinstance(val, bytes):
            return ["u2", list(val)]
        return ["str", list(v.encode("utf-8", "surrogatepass"))]
    if isinstance(v, tuple):
        return ["tuple", [tag_json(x) for x in v]]
    if isinstance(v, list):
        return ["list", [tag_json(x) for x in v]]
    if isinstance(v, frozenset):
        return ["frozenset", sorted([tag_json(x) for x in v], key=repr)]
    if isinstance(v, set):
        return ["set", sorted([tag_json(x) for x in v], key=repr)]
    if isinstance(v, dict):
        return ["dict", [[tag_json(k), tag_json(x)] for k, x in v.items()]]
    if isinstance(v, CodeBase):
        f = {}
        for n in dir(v):
            if n.startswith("co_") and not callable(getattr(v, n)):
                f[n] = tag_json(getattr(v, n))
        return ["code", f]
    return ["other", repr(type(v))]


def json_eq(x, r, py2):
    """compare xdis tagged JSON with the real interpreter's; py2 str follows xdis's convention"""
    if r[0] == "s2":
        raw = bytes(r[1])
        try:
            want = ["str", list(raw.decode("utf-8").encode("utf-8", "surrogatepass"))]
        except UnicodeDecodeError:
            want = ["bytes", list(raw)]
        return x == want or (x[0] == "bytes" and x[1] == list(raw))
    if r[0] in ("tuple", "list", "set", "frozenset"):
        return x[0] == r[0] and len(x[1]) == len(r[1]) and all(json_eq(a, b, py2) for a, b in zip(x[1], r[1]))
    if r[0] == "dict":
        return x[0] == "dict" and len(x[1]) == len(r[1]) and all(
            json_eq(a[0], b[0], py2) and json_eq(a[1], b[1], py2) for a, b in zip(x[1], r[1]))
    if r[0] == "code":
        if x[0] != "code":
            return False
        for n, rv in r[1].items():
            if n in ("co_lnotab", "co_linetable", "co_lines", "co_positions") and n not in x[1]:
                continue
            if n == "co_lnotab" and r[1].get("co_linetable") is not None:
                continue  # derived, deprecated attribute on 3.10+
            if n not in x[1]:
                return False
            if n == "co_flags" and x[1][n][0] == "int" and rv[0] == "int":
                # PyCode_New computes CO_NOFREE (0x40) itself before 3.11
                if (int(x[1][n][1]) | 0x40) != (int(rv[1]) | 0x40):
                    return False
                continue
            if not json_eq(x[1][n], rv, py2):
                return False
        return True
    return x == r
