"""R-model of CPython 3.10 co_lines() (Objects/lnotab_notes.txt, codeobject.c lineiter_next /
PyLineTable_NextAddressRange).  Validated against the real 3.10 interpreter at run time."""


def ranges(table, firstlineno):
    """non-empty address ranges [(start, end, line|None)], unmerged"""
    out = []
    end = 0
    line = firstlineno
    n = len(table) // 2
    for i in range(n):
        od = table[2 * i]
        ld = table[2 * i + 1]
        if ld >= 128:
            ld = ld - 256
        start = end
        end = end + od
        if ld == -128:
            shown = None
        else:
            line = line + ld
            shown = line
        if start == end:
            continue
        out.append((start, end, shown))
    return out


def merge(rs):
    out = []
    for s, e, l in rs:
        if out and out[-1][1] == s and ((out[-1][2] is None and l is None) or
                                        (out[-1][2] is not None and l is not None and out[-1][2] == l)):
            out[-1] = (out[-1][0], e, out[-1][2])
        else:
            out.append((s, e, l))
    return out


def lines(table, firstlineno):
    return merge(ranges(table, firstlineno))


def linestarts(table, firstlineno):
    """3.10 dis.findlinestarts over co_lines()"""
    out = []
    last = None
    for s, _e, l in ranges(table, firstlineno):
        if l is not None and (last is None or l != last):
            last = l
            out.append((s, l))
    return out


_REAL = r'''
import sys, json, dis
req = json.loads(sys.stdin.read())
def f(): pass
out = []
for tbl, fl, n in req:
    co = f.__code__.replace(co_linetable=bytes(bytearray(tbl)), co_firstlineno=fl, co_code=b"\x09\x00" * n)
    out.append([[list(t) for t in co.co_lines()], [list(t) for t in dis.findlinestarts(co)]])
sys.stdout.write(json.dumps(out))
'''


def real(cases):
    from engine import oracles
    req = []
    for tbl, fl in cases:
        total = 0
        for i in range(len(tbl) // 2):
            total += tbl[2 * i]
        req.append([list(tbl), fl, total // 2 + 1])
    res = oracles.run_in((3, 10), _REAL, req)
    return [([tuple(t) for t in r[0]], [tuple(t) for t in r[1]]) for r in res]


def wellformed(tbl, fl):
    """every running line >= 1 (CPython reports negative lines as None)"""
    if len(tbl) >= 2 and tbl[len(tbl) - 2] == 0:
        return False  # a trailing empty range makes CPython's C iterator read past the table (UB)
    return all(l is None or l >= 1 for _s, _e, l in ranges(tbl, fl))


def validate(cases):
    n = 0
    cases = [c for c in cases if wellformed(*c)]
    for (tbl, fl), (rl, rs) in zip(cases, real(cases)):
        if merge(rl) != lines(tbl, fl) or rs != linestarts(tbl, fl):
            raise RuntimeError("R-model lines310 disagrees with CPython 3.10 on %r/%r: model %r %r real %r %r"
                               % (tbl, fl, lines(tbl, fl), linestarts(tbl, fl), rl, rs))
        n += 1
    return n
