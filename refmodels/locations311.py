"""R-model of the CPython 3.11+ location table (Objects/locations.md, codeobject.c
advance()/lineiter_next()/positionsiter_next()).  Validated against the real interpreters
(validate()) on every run; never trusted blindly."""


def _varint(it):
    b = next(it)
    val = b % 64
    shift = 0
    while (b // 64) % 2:
        b = next(it)
        shift += 6
        val += (b % 64) * (1 << shift)
    return val


def _svarint(it):
    v = _varint(it)
    if v % 2:
        return -(v // 2)
    return v // 2


def entries(table, firstlineno):
    """-> list of (n_code_units, line|None, endline|None, col|None, endcol|None)"""
    out = []
    it = iter(table)
    line = firstlineno
    while True:
        try:
            b = next(it)
        except StopIteration:
            break
        code = (b // 8) % 16
        n = (b % 8) + 1
        if code == 15:
            out.append((n, None, None, None, None))
        elif code == 14:
            line = line + _svarint(it)
            endline = line + _varint(it)
            col = _varint(it) - 1
            endcol = _varint(it) - 1
            out.append((n, line, endline, None if col < 0 else col, None if endcol < 0 else endcol))
        elif code == 13:
            line = line + _svarint(it)
            out.append((n, line, line, None, None))
        elif code >= 10:
            line = line + (code - 10)
            col = next(it)
            endcol = next(it)
            out.append((n, line, line, col, endcol))
        else:
            b2 = next(it)
            col = code * 8 + (b2 // 16) % 8
            endcol = col + b2 % 16
            out.append((n, line, line, col, endcol))
    return out


def positions(table, firstlineno):
    """co_positions(): one tuple per code unit"""
    out = []
    for n, l, el, c, ec in entries(table, firstlineno):
        for _ in range(n):
            out.append((l, el, c, ec))
    return out


def lines(table, firstlineno):
    """co_lines(): (start, end, line|None), consecutive ranges with the same line merged"""
    out = []
    pos = 0
    for n, l, _el, _c, _ec in entries(table, firstlineno):
        end = pos + 2 * n
        if out and _same(out[-1][2], l):
            out[-1] = (out[-1][0], end, out[-1][2])
        else:
            out.append((pos, end, l))
        pos = end
    return out


def merge(ranges):
    """normal form of a co_lines()-style list: adjacent ranges with the same line merged (3.11 and 3.12+
    differ in how eagerly co_lines() merges; the line of every code unit is what is compared)"""
    out = []
    for s, e, l in ranges:
        if out and _same(out[-1][2], l) and out[-1][1] == s:
            out[-1] = (out[-1][0], e, out[-1][2])
        else:
            out.append((s, e, l))
    return out


def _same(a, b):
    if a is None or b is None:
        return a is None and b is None
    return a == b


_REAL_SCRIPT = r'''
import sys, json
req = json.loads(sys.stdin.read())
out = []
def f(): pass
for tbl, fl, units in req:
    co = f.__code__.replace(co_linetable=bytes(bytearray(tbl)), co_firstlineno=fl, co_code=b"\x09\x00" * units)
    out.append([[list(p) for p in co.co_positions()], [list(p) for p in co.co_lines()]])
sys.stdout.write(json.dumps(out))
'''


def real(ver, cases):
    """cases: list of (table_bytes_list, firstlineno); -> [(positions, lines)] from the real interpreter"""
    from engine import oracles
    req = []
    for tbl, fl in cases:
        units = sum(e[0] for e in entries(tbl, fl))
        req.append([list(tbl), fl, units])
    res = oracles.run_in(ver, _REAL_SCRIPT, req)
    return [([tuple(p) for p in r[0]], [tuple(p) for p in r[1]]) for r in res]


def validate(cases, vers=((3, 11), (3, 12), (3, 13))):
    """model vs real interpreters; returns number of comparisons; raises on disagreement"""
    n = 0
    for ver in vers:
        got = real(ver, cases)
        for (tbl, fl), (rp, rl) in zip(cases, got):
            mp = positions(tbl, fl)
            ml = lines(tbl, fl)
            if mp != rp or merge(ml) != merge(rl):
                raise RuntimeError("R-model locations311 disagrees with CPython %r on %r/%r:\n model %r %r\n real  %r %r"
                                   % (ver, tbl, fl, mp, ml, rp, rl))
            n += 1
    return n
